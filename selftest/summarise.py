#!/usr/bin/env python3
"""selftest/summarise.py [results.json]: one-screen summary of a run_all.py result file"""
import json
import os
import sys

VERIF = os.path.dirname(os.path.dirname(os.path.abspath(__file__)))
r = json.load(open(sys.argv[1] if len(sys.argv) > 1 else os.path.join(VERIF, 'selftest', 'results.json')))
seeded = [k for k in r if os.path.isdir(os.path.join(VERIF, 'seeded', k))]
ben = [k for k in r if k not in seeded]
miss, nt, by_t = [], [], 0
for k in sorted(seeded):
    v = r[k]
    if 'error' in v:
        print('ERR', k, v)
        continue
    caught = [p for p, x in v.items() if x['exit'] == 1]
    if not caught:
        miss.append(k)
    elif k.split('-')[0] not in caught:
        nt.append((k, caught))
    else:
        by_t += 1
print('%d seeded changes: %d caught (%d by the targeted property); missed: %s' % (len(seeded), len(seeded) - len(miss), by_t, miss))
print('caught, but not by the targeted property:', nt)
al, und = [], {}
for k in sorted(ben):
    v = r[k]
    if 'error' in v:
        print('ERR', k, v)
        continue
    a = [p for p, x in v.items() if x['exit'] == 1]
    u = [p for p, x in v.items() if x['exit'] == 2]
    if a:
        al.append((k, a))
    if u:
        und[k] = u
print('%d benign changes: %d alarms %s; %d verify outright; %d leave at least one check undecided' % (len(ben), len(al), al, len(ben) - len(und) - len(al), len(und)))
for k, u in und.items():
    print('   undecided', k, ' '.join(u))
