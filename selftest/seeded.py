#!/usr/bin/env python3
"""Evaluate seeded defects.

  selftest/seeded.py validate <dir>     confirm a candidate (patch.diff, demo.rs, meta.json): patch applies, the 32 existing tests pass with
                                        it, the demo fails with it and passes without it (in a scratch worktree of /repo)
  selftest/seeded.py run <dir> [props]  apply the patch to a scratch worktree and run the quick checks against it (VERIF_REPO/VERIF_SCRATCH),
                                        printing which checks raise a VIOLATION; nothing under /verif/evidence or /repo is touched
"""
import json
import os
import shutil
import subprocess
import sys
import tempfile
from concurrent.futures import ThreadPoolExecutor

VERIF = os.path.dirname(os.path.dirname(os.path.abspath(__file__)))
ALL = ['C%02d' % i for i in range(1, 20)]


def sh(cmd, cwd=None, env=None, timeout=1800):
    p = subprocess.run(cmd, cwd=cwd, env=env, capture_output=True, text=True, timeout=timeout)
    return p.returncode, p.stdout + p.stderr


def worktree():
    d = tempfile.mkdtemp(prefix='pckb-seed-', dir='/tmp')
    os.rmdir(d)
    rc, out = sh(['git', '-C', '/repo', 'worktree', 'add', '--detach', d, 'HEAD'])
    if rc != 0:
        raise SystemExit('cannot create worktree: ' + out)
    return d


def drop(d):
    sh(['git', '-C', '/repo', 'worktree', 'remove', '--force', d])
    shutil.rmtree(d, ignore_errors=True)
    sh(['git', '-C', '/repo', 'worktree', 'prune'])


def validate(sd):
    wt = worktree()
    env = dict(os.environ, CARGO_NET_OFFLINE='true', CARGO_TARGET_DIR=os.path.join(wt, 'target'))
    res = {}
    try:
        rc, out = sh(['git', 'apply', '--check', os.path.join(sd, 'patch.diff')], cwd=wt)
        res['applies'] = rc == 0
        if rc != 0:
            res['error'] = out[-500:]
            return res
        os.makedirs(os.path.join(wt, 'tests'), exist_ok=True)
        shutil.copy(os.path.join(sd, 'demo.rs'), os.path.join(wt, 'tests', 'seeded_demo.rs'))
        rc, out = sh(['cargo', 'test', '--offline', '--test', 'seeded_demo'], cwd=wt, env=env)
        res['demo_passes_without_patch'] = rc == 0
        sh(['git', 'apply', os.path.join(sd, 'patch.diff')], cwd=wt)
        rc, out = sh(['cargo', 'test', '--offline', '--lib'], cwd=wt, env=env)
        res['existing_tests_pass_with_patch'] = rc == 0 and 'test result: ok. 32 passed' in out
        rc, out = sh(['cargo', 'test', '--offline', '--test', 'seeded_demo'], cwd=wt, env=env)
        res['demo_fails_with_patch'] = rc != 0 and 'error: could not compile' not in out
        res['ok'] = all(res.get(k) for k in ('applies', 'demo_passes_without_patch', 'existing_tests_pass_with_patch', 'demo_fails_with_patch'))
        return res
    finally:
        drop(wt)


def run(sd, props):
    wt = worktree()
    scratch = tempfile.mkdtemp(prefix='pckb-scratch-', dir='/tmp')
    try:
        patch = sd if sd.endswith('.diff') else os.path.join(sd, 'patch.diff')
        rc, out = sh(['git', 'apply', patch], cwd=wt)
        if rc != 0:
            raise SystemExit('patch does not apply: ' + out)
        env = dict(os.environ, VERIF_REPO=wt, VERIF_SCRATCH=scratch)

        def one(p):
            rc, out = sh([os.path.join(VERIF, 'check'), p], cwd=VERIF, env=env)
            lines = [l for l in out.split('\n') if l.startswith(('VIOLATION', 'UNDECIDED', 'OK ', '  counterexample'))]
            return p, rc, lines
        with ThreadPoolExecutor(max_workers=6) as ex:
            results = list(ex.map(one, props))
        summary = {}
        for p, rc, lines in results:
            summary[p] = {'exit': rc, 'lines': lines[:6], 'n_violations': sum(1 for l in lines if l.startswith('VIOLATION'))}
        return summary
    finally:
        drop(wt)
        shutil.rmtree(scratch, ignore_errors=True)


if __name__ == '__main__':
    cmd, sd = sys.argv[1], os.path.abspath(sys.argv[2])
    if cmd == 'validate':
        r = validate(sd)
        print(json.dumps(r, indent=1))
        sys.exit(0 if r.get('ok') else 1)
    props = sys.argv[3:] or ALL
    r = run(sd, props)
    for p in sorted(r):
        print(p, 'exit', r[p]['exit'], '|', ' || '.join(r[p]['lines'])[:400])
    caught = [p for p in r if r[p]['exit'] == 1]
    print('CAUGHT-BY:', ' '.join(sorted(caught)) or '(none)')
    print('UNDECIDED:', ' '.join(sorted(p for p in r if r[p]['exit'] == 2)) or '(none)')
