#!/usr/bin/env python3
"""Mechanical mutation sweep: small token-level mutations of /repo/src that still compile and pass the 32 existing tests,
each run against the quick checks in a scratch worktree. Survivors (no check alarms) are listed for triage: they are
either equivalent mutants (no property is about the changed behaviour) or genuine misses.

  selftest/mutate.py <n> [seed] [workers]      ->  selftest/mutation_results.json, selftest/MUTATION.md
"""
import json
import os
import random
import re
import shutil
import subprocess
import sys
import tempfile
from concurrent.futures import ThreadPoolExecutor

VERIF = os.path.dirname(os.path.dirname(os.path.abspath(__file__)))
sys.path.insert(0, VERIF)
sys.path.insert(0, os.path.join(VERIF, 'selftest'))
from engine.rustlex import lex  # noqa: E402
import seeded as S  # noqa: E402

FILES = ['src/lib.rs', 'src/scancodes/set1.rs', 'src/scancodes/set2.rs', 'src/layouts/mod.rs', 'src/layouts/us104.rs', 'src/layouts/uk105.rs',
         'src/layouts/de105.rs', 'src/layouts/azerty.rs', 'src/layouts/no105.rs', 'src/layouts/fi_se105.rs', 'src/layouts/jis109.rs',
         'src/layouts/colemak.rs', 'src/layouts/dvorak104.rs', 'src/layouts/dvorak_programmer104.rs']
SWAPS = {
    'is_shifted': ['is_caps', 'is_altgr', 'is_ctrl'], 'is_caps': ['is_shifted'], 'is_altgr': ['is_alt', 'is_shifted'], 'is_ctrl': ['is_alt', 'is_shifted'],
    'true': ['false'], 'false': ['true'], 'Down': ['Up'], 'Up': ['Down', 'SingleShot'], 'SingleShot': ['Down'],
    'Start': ['Extended'], 'Extended': ['Start', 'Extended2'], 'Extended2': ['Extended'], 'Release': ['Start'], 'ExtendedRelease': ['Release'],
    'lshift': ['rshift'], 'rshift': ['lshift'], 'lctrl': ['rctrl'], 'rctrl': ['rctrl2'], 'lalt': ['ralt'], 'ralt': ['lalt'], 'numlock': ['capslock'],
    'capslock': ['numlock'], 'rctrl2': ['rctrl'], 'MapLettersToUnicode': ['Ignore'],
}


def test_region(src):
    m = re.search(r'#\[cfg\(test\)\]', src)
    return m.start() if m else len(src)


def candidates(path, src):
    """(offset, length, replacement, description) for every applicable mutation in the non-test part of a file"""
    end = test_region(src)
    toks = [t for t in lex(src) if t.pos < end]
    sig = [t for t in toks if t.kind not in ('ws', 'lcomment', 'bcomment')]
    keycodes = sorted(set(sig[i + 3].text for i in range(len(sig) - 3) if sig[i].text == 'KeyCode' and sig[i + 1].text == ':' and sig[i + 2].text == ':'))
    out = []
    for i, t in enumerate(sig):
        prev = sig[i - 1].text if i else ''
        nxt = sig[i + 1].text if i + 1 < len(sig) else ''
        if t.kind == 'char' and len(t.text) == 3:
            c = t.text[1]
            r = chr(ord(c) + 1) if c not in "'\\~" else 'x'
            if r not in "'\\":
                out.append((t.pos, len(t.text), "'%s'" % r, 'char literal %s -> %r' % (t.text, r)))
        elif t.kind == 'char' and t.text.startswith("'\\u{"):
            m = re.match(r"'\\u\{([0-9A-Fa-f]+)\}'", t.text)
            if m:
                v = int(m.group(1), 16)
                out.append((t.pos, len(t.text), "'\\u{%04X}'" % (v + 1), 'char literal %s -> U+%04X' % (t.text, v + 1)))
        elif t.kind == 'num' and re.match(r'^(0x[0-9A-Fa-f]+|\d+)$', t.text):
            v = int(t.text, 16) if t.text.startswith('0x') else int(t.text)
            for d in (1, -1):
                if v + d >= 0:
                    nv = v + d
                    out.append((t.pos, len(t.text), ('0x%02X' % nv) if t.text.startswith('0x') else str(nv), 'constant %s -> %d' % (t.text, nv)))
        elif t.kind == 'id' and t.text in SWAPS and prev in ('.', ':', '=', '(', ',', '{', '>') or (t.kind == 'id' and t.text in ('true', 'false')):
            for r in SWAPS.get(t.text, []):
                out.append((t.pos, len(t.text), r, 'identifier %s -> %s' % (t.text, r)))
        elif t.kind == 'id' and prev == ':' and i >= 3 and sig[i - 3].text == 'KeyCode' and t.text in keycodes and len(keycodes) > 1:
            k = keycodes[(keycodes.index(t.text) + 1) % len(keycodes)]
            out.append((t.pos, len(t.text), k, 'KeyCode::%s -> KeyCode::%s' % (t.text, k)))
        elif t.kind == 'p' and t.text == '!' and nxt != '=' and nxt != '[' and prev != '#':
            out.append((t.pos, 1, '', 'negation removed before %s' % nxt))
        elif t.kind == 'p' and t.text == '=' and nxt == '=' and sig[i + 1].pos == t.pos + 1:
            out.append((t.pos, 2, '!=', '== -> !='))
        elif t.kind == 'p' and t.text == '!' and nxt == '=' and sig[i + 1].pos == t.pos + 1:
            out.append((t.pos, 2, '==', '!= -> =='))
        elif t.kind == 'p' and t.text in '|&^' and nxt != t.text and prev != t.text and nxt != '=':
            r = {'|': '&', '&': '|', '^': '|'}[t.text]
            if not (t.text == '&' and (prev in ('(', ',', ':', '>', '=') or nxt in ('self', 'mut'))):
                out.append((t.pos, 1, r, 'operator %s -> %s' % (t.text, r)))
    # statement deletion: `self.<...> = <...>;`
    for m in re.finditer(r'\n[ \t]*self\.[\w.]+ (?:\|?=|\+=) [^;\n]+;', src[:end]):
        out.append((m.start() + 1, m.end() - m.start() - 1, '', 'statement deleted: %s' % m.group(0).strip()))
    return [(path,) + c for c in out]


def make_patch(path, off, ln, rep):
    full = os.path.join('/repo', path)
    src = open(full, encoding='utf-8').read()
    new = src[:off] + rep + src[off + ln:]
    d = tempfile.mkdtemp(prefix='pckb-mut-', dir='/tmp')
    a = os.path.join(d, 'a', path)
    b = os.path.join(d, 'b', path)
    os.makedirs(os.path.dirname(a))
    os.makedirs(os.path.dirname(b))
    open(a, 'w', encoding='utf-8').write(src)
    open(b, 'w', encoding='utf-8').write(new)
    p = subprocess.run(['diff', '-u', os.path.join('a', path), os.path.join('b', path)], cwd=d, capture_output=True, text=True)
    shutil.rmtree(d)
    return p.stdout


def evaluate(m):
    path, off, ln, rep, desc = m
    patch = make_patch(path, off, ln, rep)
    pf = tempfile.NamedTemporaryFile('w', suffix='.diff', delete=False, dir='/tmp')
    pf.write(patch)
    pf.close()
    res = {'file': path, 'offset': off, 'mutation': desc, 'patch': patch}
    wt = S.worktree()
    try:
        rc, out = S.sh(['git', 'apply', pf.name], cwd=wt)
        if rc != 0:
            res['status'] = 'patch-failed'
            return res
        env = dict(os.environ, CARGO_NET_OFFLINE='true', CARGO_TARGET_DIR=os.path.join(wt, 'target'))
        rc, out = S.sh(['cargo', 'test', '--offline', '--lib'], cwd=wt, env=env)
        if 'error' in out and 'could not compile' in out:
            res['status'] = 'does-not-compile'
            return res
        if rc != 0:
            res['status'] = 'killed-by-existing-tests'
            return res
    finally:
        S.drop(wt)
    try:
        r = S.run(pf.name, S.ALL)
    except SystemExit as e:
        res['status'] = 'error: %s' % e
        return res
    finally:
        os.unlink(pf.name)
    res['caught_by'] = sorted(p for p in r if r[p]['exit'] == 1)
    res['undecided'] = sorted(p for p in r if r[p]['exit'] == 2)
    res['status'] = 'caught' if res['caught_by'] else ('undecided' if res['undecided'] else 'survived')
    return res


def main():
    n = int(sys.argv[1]) if len(sys.argv) > 1 else 20
    seed = int(sys.argv[2]) if len(sys.argv) > 2 else 1
    workers = int(sys.argv[3]) if len(sys.argv) > 3 else 2
    rng = random.Random(seed)
    cands = []
    for f in FILES:
        cands += candidates(f, open(os.path.join('/repo', f), encoding='utf-8').read())
    # stratify: equal share per file group so that the big layout files do not dominate
    groups = {}
    for c in cands:
        groups.setdefault(c[0], []).append(c)
    picked = []
    names = sorted(groups)
    while len(picked) < n and any(groups.values()):
        for g in names:
            if groups[g] and len(picked) < n:
                picked.append(groups[g].pop(rng.randrange(len(groups[g]))))
    outp = os.path.join(VERIF, 'selftest', 'mutation_results.json')
    results = json.load(open(outp)) if os.path.exists(outp) else []
    done = set((r['file'], r['offset'], r['mutation']) for r in results)
    picked = [p for p in picked if (p[0], p[1], p[4]) not in done]
    print('%d candidates, evaluating %d' % (len(cands), len(picked)), flush=True)
    with ThreadPoolExecutor(max_workers=workers) as ex:
        for r in ex.map(evaluate, picked):
            results.append(r)
            json.dump(results, open(outp, 'w'), indent=1)
            print(r['status'], r['file'], r['mutation'], r.get('caught_by', ''), flush=True)
    write_md(results)


def write_md(results):
    valid = [r for r in results if r['status'] in ('caught', 'undecided', 'survived')]
    lines = ['# Mechanical mutation sweep', '',
             'Token-level mutants of /repo/src (char literals, constants +-1, predicate / flag / state swaps, KeyCode swaps, operator swaps,',
             'negation removal, statement deletion) that compile and pass the 32 existing tests, each run against all quick checks.', '',
             '* generated: %d, not compiling: %d, killed by the existing tests: %d' % (len(results), sum(1 for r in results if r['status'] == 'does-not-compile'), sum(1 for r in results if r['status'] == 'killed-by-existing-tests')),
             '* valid mutants (compile + pass the suite): %d' % len(valid),
             '* caught (some check exits 1 with a VIOLATION): %d' % sum(1 for r in valid if r['status'] == 'caught'),
             '* undecided only (exit 2, no alarm): %d' % sum(1 for r in valid if r['status'] == 'undecided'),
             '* survived (all checks exit 0): %d  - see triage below' % sum(1 for r in valid if r['status'] == 'survived'), '',
             '| status | file | mutation | caught by | undecided |', '|---|---|---|---|---|']
    for r in sorted(valid, key=lambda r: (r['status'], r['file'])):
        lines.append('| %s | %s | %s | %s | %s |' % (r['status'], r['file'], r['mutation'].replace('|', '/'), ' '.join(r.get('caught_by', [])), ' '.join(r.get('undecided', []))))
    lines += ['', '## Triage of survivors', '']
    for r in valid:
        if r['status'] == 'survived':
            lines.append('* `%s`: %s - %s' % (r['file'], r['mutation'], TRIAGE.get((r['file'], r['mutation']), 'not triaged yet')))
    open(os.path.join(VERIF, 'selftest', 'MUTATION.md'), 'w').write('\n'.join(lines) + '\n')


TRIAGE = {
    ('src/layouts/azerty.rs', 'identifier is_altgr -> is_shifted'):
        'equivalent with respect to the properties (the Key9 site; the same swap at other sites is caught): the branch becomes dead, so AltGr+9 types the base '
        'character instead of the circumflex - a lost AltGr level, which C03 does not forbid, and the circumflex stays typable on its own key (C12).',
    ('src/layouts/no105.rs', "char literal '€' -> '₭'"):
        'falls into a documented gap of the oracle, not of the machinery: Norwegian AltGr+5 is one of the four cells of spec/layouts that could not be pinned '
        'without network access and is left unconstrained (DESIGN.md section 3, C03).',
    ('src/layouts/uk105.rs', 'KeyCode::Key4 -> KeyCode::Oem3'):
        'equivalent with respect to the properties, same shape as the other two: the renamed arm is shadowed by the earlier Oem3 arm, KeyCode::Key4 falls '
        'through to the US layout (4 and $ as before) and only loses its AltGr level (the euro sign).',
    ('src/layouts/de105.rs', 'KeyCode::E -> KeyCode::Escape'):
        'equivalent with respect to the properties, same shape as the fi_se105 survivor: the renamed arm is shadowed by the earlier Escape arm, KeyCode::E '
        'falls through to the US layout and only loses its AltGr level (the euro sign); base and Shift levels and Ctrl+E are what the US layout gives, '
        'which is what the German layout prescribes.',
    ('src/layouts/fi_se105.rs', 'KeyCode::E -> KeyCode::Key0'):
        'equivalent with respect to the properties: the renamed arm is shadowed by the earlier Key0 arm, so KeyCode::E falls through to the US layout and only '
        'loses its AltGr level (the euro sign). No property requires a non-ASCII AltGr character to exist (C03 constrains AltGr characters that are present, '
        'C12 only the 95 ASCII characters).',
}


if __name__ == '__main__':
    main()
