#!/usr/bin/env python3
"""Run every check against every seeded change (seeded/*/patch.diff) and every benign refactoring (selftest/benign/*.diff)
in scratch worktrees, and write selftest/RESULTS.md + selftest/results.json. Nothing in /repo or /verif/evidence is touched."""
import json
import os
import subprocess
import sys
from concurrent.futures import ThreadPoolExecutor

VERIF = os.path.dirname(os.path.dirname(os.path.abspath(__file__)))
sys.path.insert(0, os.path.join(VERIF, 'selftest'))
import seeded as S


PROPS = [p for p in os.environ.get('SELFTEST_PROPS', '').split(',') if p] or S.ALL   # SELFTEST_PROPS=C17,C18: only those checks (merged)


def one(path):
    try:
        r = S.run(path, PROPS)
    except SystemExit as e:
        return path, {'error': str(e)}
    return path, r


def main():
    only = sys.argv[1:]
    items = sorted(os.path.join(VERIF, 'seeded', d) for d in os.listdir(os.path.join(VERIF, 'seeded')))
    items += sorted(os.path.join(VERIF, 'selftest', 'benign', f) for f in os.listdir(os.path.join(VERIF, 'selftest', 'benign')) if f.endswith('.diff'))
    if only:
        items = [i for i in items if any(o in i for o in only)]
    resp = os.path.join(VERIF, 'selftest', 'results.json')
    results = json.load(open(resp)) if os.path.exists(resp) else {}
    with ThreadPoolExecutor(max_workers=3) as ex:
        for path, r in ex.map(one, items):
            name = os.path.basename(path).replace('.diff', '')
            if 'error' in r:
                results[name] = r
            else:
                if PROPS is not S.ALL and isinstance(results.get(name), dict) and 'error' not in results[name]:
                    results[name].update({p: {'exit': v['exit'], 'lines': v['lines'][:3]} for p, v in r.items()})
                else:
                    results[name] = {p: {'exit': v['exit'], 'lines': v['lines'][:3]} for p, v in r.items()}
            json.dump(results, open(resp, 'w'), indent=1)
            print(name, 'caught by', [p for p, v in r.items() if isinstance(v, dict) and v.get('exit') == 1], flush=True)
    write_md(results)


def write_md(results):
    lines = ['# Seeded changes and benign refactorings vs. the quick checks', '',
             'Produced by `selftest/run_all.py` (each change applied to a scratch worktree of /repo HEAD; `VERIF_REPO`/`VERIF_SCRATCH`).',
             '`V` = exit 1 with a VIOLATION line, `u` = exit 2 (undecided, no alarm), blank = exit 0.', '']
    props = S.ALL
    lines.append('| change | target | ' + ' | '.join(p[1:] for p in props) + ' | what it needs |')
    lines.append('|---|---|' + '|'.join('---' for _ in props) + '|---|')
    for name in sorted(results):
        r = results[name]
        if 'error' in r:
            lines.append('| %s | | error: %s |' % (name, r['error'][:80]))
            continue
        meta = {}
        mp = os.path.join(VERIF, 'seeded', name, 'meta.json')
        if os.path.exists(mp):
            meta = json.load(open(mp))
        cells = []
        for p in props:
            e = r.get(p, {}).get('exit')
            cells.append('V' if e == 1 else ('u' if e == 2 else ''))
        lines.append('| %s | %s | %s | %s |' % (name, meta.get('property', 'benign'), ' | '.join(cells), (meta.get('needs') or 'semantics-preserving refactoring: no check may alarm')[:160].replace('|', '/').replace('\n', ' ')))
    seeded_names = [n for n in results if os.path.exists(os.path.join(VERIF, 'seeded', n))]
    caught = [n for n in seeded_names if any(v.get('exit') == 1 for v in results[n].values() if isinstance(v, dict))]
    target = [n for n in seeded_names if isinstance(results[n].get(json.load(open(os.path.join(VERIF, 'seeded', n, 'meta.json')))['property'], {}), dict)
              and results[n].get(json.load(open(os.path.join(VERIF, 'seeded', n, 'meta.json')))['property'], {}).get('exit') == 1]
    benign = [n for n in results if n not in seeded_names]
    alarms = [n for n in benign if any(v.get('exit') == 1 for v in results[n].values() if isinstance(v, dict))]
    und = [n for n in benign if any(v.get('exit') == 2 for v in results[n].values() if isinstance(v, dict))]
    lines += ['', '**Seeded changes:** %d, caught by at least one check: %d, caught by the check of the property they were written against: %d.' % (len(seeded_names), len(caught), len(target)),
              '**Benign refactorings:** %d, raising an alarm: %d (%s), leaving some check undecided: %d (%s).' % (len(benign), len(alarms), ', '.join(alarms) or '-', len(und), ', '.join(und) or '-'), '']
    open(os.path.join(VERIF, 'selftest', 'RESULTS.md'), 'w').write('\n'.join(lines))


if __name__ == '__main__':
    main()
