#!/usr/bin/env python3
"""selftest/ingest.py <property> <worktree>/SEEDED <round label>: copy a sub-agent's candidates (patchN.diff, demoN.rs, metaN.json) into
seeded/<property>-<k>/ after confirming them with seeded.py validate (in a fresh scratch worktree of /repo HEAD)."""
import json
import os
import shutil
import sys

VERIF = os.path.dirname(os.path.dirname(os.path.abspath(__file__)))
sys.path.insert(0, os.path.join(VERIF, 'selftest'))
import seeded as S


def main():
    pid, src, label = sys.argv[1], sys.argv[2], sys.argv[3]
    have = [int(d.split('-')[1]) for d in os.listdir(os.path.join(VERIF, 'seeded')) if d.startswith(pid + '-')]
    k = max(have or [0]) + 1
    for n in (1, 2, 3):
        pf = os.path.join(src, 'patch%d.diff' % n)
        if not os.path.exists(pf):
            continue
        tmp = os.path.join('/tmp', 'ingest-%s-%d' % (pid, n))
        shutil.rmtree(tmp, ignore_errors=True)
        os.makedirs(tmp)
        shutil.copy(pf, os.path.join(tmp, 'patch.diff'))
        shutil.copy(os.path.join(src, 'demo%d.rs' % n), os.path.join(tmp, 'demo.rs'))
        try:
            m = json.load(open(os.path.join(src, 'meta%d.json' % n)))
        except Exception as e:
            m = {'summary': 'meta unreadable: %r' % e}
        res = S.validate(tmp)
        if not res.get('ok'):
            print('%s candidate %d REJECTED: %s' % (pid, n, res))
            shutil.rmtree(tmp)
            continue
        meta = {'id': '%s-%d' % (pid, k), 'property': pid, 'summary': m.get('summary', ''), 'needs': m.get('needs', ''), 'files': m.get('files', []),
                'author': label, 'author_ran': m.get('ran', []),
                'confirmed_by_me': {'how': 'selftest/seeded.py validate <dir> in a fresh scratch worktree of /repo HEAD', 'patch_applies': res['applies'],
                                    'existing_32_tests_pass_with_patch': res['existing_tests_pass_with_patch'],
                                    'demo_fails_with_patch': res['demo_fails_with_patch'], 'demo_passes_without_patch': res['demo_passes_without_patch']}}
        json.dump(meta, open(os.path.join(tmp, 'meta.json'), 'w'), indent=1)
        dst = os.path.join(VERIF, 'seeded', '%s-%d' % (pid, k))
        shutil.move(tmp, dst)
        print('%s candidate %d -> %s' % (pid, n, dst))
        k += 1


if __name__ == '__main__':
    main()
