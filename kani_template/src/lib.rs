//! Kani harnesses that discharge, on the real compiled crate and the real core library, the assumptions the Verus
//! run has to make (functions outside Verus' dialect). Every harness is loop-free over the full input domain:
//! a complete proof, not a bounded one. `derived.rs` is generated on every run from /repo (the same derived copies
//! the Verus file uses).
#![allow(unused)]
use pc_keyboard::*;

include!("derived.rs");

#[cfg(kani)]
mod discharge {
    use super::*;

    fn any_mods() -> Modifiers {
        Modifiers {
            lshift: kani::any(),
            rshift: kani::any(),
            lctrl: kani::any(),
            rctrl: kani::any(),
            numlock: kani::any(),
            capslock: kani::any(),
            lalt: kani::any(),
            ralt: kani::any(),
            rctrl2: kani::any(),
        }
    }

    /// A3c: each real predicate equals its mechanically derived copy for all 512 Modifiers
    #[kani::proof]
    fn predicates_equal_copies() {
        let m = any_mods();
        check_predicates(&m);
    }

    /// A3a: u8::count_ones is the sum of the eight bits
    #[kani::proof]
    fn count_ones_is_bit_sum() {
        let x: u8 = kani::any();
        let s = (x & 1) + ((x >> 1) & 1) + ((x >> 2) & 1) + ((x >> 3) & 1) + ((x >> 4) & 1) + ((x >> 5) & 1) + ((x >> 6) & 1) + ((x >> 7) & 1);
        assert!(x.count_ones() == s as u32);
    }

    /// A3b: char::from(u8) / u8.into() is the `as char` cast
    #[kani::proof]
    fn char_from_u8_is_cast() {
        let x: u8 = kani::any();
        assert!(char::from(x) == x as char);
        let c: char = x.into();
        assert!(c == x as char);
        assert!(c as u32 == x as u32);
    }
}
