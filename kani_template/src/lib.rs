//! Kani harnesses that discharge, on the real compiled crate and the real core library, the assumptions the Verus
//! run has to make (functions outside Verus' dialect). Every harness is loop-free over the full input domain:
//! a complete proof, not a bounded one. `derived.rs` is generated on every run from /repo (the same derived copies
//! the Verus file uses).
#![allow(unused)]
use pc_keyboard::*;

include!("derived.rs");

#[cfg(kani)]
mod discharge {
    use super::*;

    fn any_mods() -> Modifiers {
        Modifiers {
            lshift: kani::any(),
            rshift: kani::any(),
            lctrl: kani::any(),
            rctrl: kani::any(),
            numlock: kani::any(),
            capslock: kani::any(),
            lalt: kani::any(),
            ralt: kani::any(),
            rctrl2: kani::any(),
        }
    }

    /// A3c: each real predicate equals its mechanically derived copy for all 512 Modifiers
    #[kani::proof]
    fn predicates_equal_copies() {
        let m = any_mods();
        check_predicates(&m);
    }

    /// A3a: u8::count_ones is the sum of the eight bits
    #[kani::proof]
    fn count_ones_is_bit_sum() {
        let x: u8 = kani::any();
        let s = (x & 1) + ((x >> 1) & 1) + ((x >> 2) & 1) + ((x >> 3) & 1) + ((x >> 4) & 1) + ((x >> 5) & 1) + ((x >> 6) & 1) + ((x >> 7) & 1);
        assert!(x.count_ones() == s as u32);
    }

    /// A3d: u16::from(bool) / u8::from(bool) are the `as` casts
    #[kani::proof]
    fn int_from_bool_is_cast() {
        let b: bool = kani::any();
        assert!(u16::from(b) == b as u16);
        assert!(u8::from(b) == b as u8);
        let w: u16 = b.into();
        assert!(w == b as u16);
        assert!(w <= 1);
    }

    /// A4: the derived `PartialEq` of the enums that exec code compares with `==` / `!=` (KeyCode, HandleControl, KeyState,
    /// and DecodedKey / KeyEvent built from them) is structural: equal iff same variant and equal payloads.
    /// `x_keycode` lists every variant of the enum once (generated from the enum on every run), so index equality is
    /// variant identity. Loop-free, full domain (124 x 124 keys, 2 x 2 modes, 3 x 3 states, all chars): complete.
    #[kani::proof]
    fn derived_eq_is_structural() {
        let i: u8 = kani::any();
        let j: u8 = kani::any();
        kani::assume(i < X_NKEYS && j < X_NKEYS);
        let (a, b) = (x_keycode(i), x_keycode(j));
        assert!((a == b) == (i == j));
        assert!((a != b) == (i != j));
        let hi: bool = kani::any();
        let hj: bool = kani::any();
        let h = |x: bool| if x { HandleControl::MapLettersToUnicode } else { HandleControl::Ignore };
        assert!((h(hi) == h(hj)) == (hi == hj));
        assert!((h(hi) != h(hj)) == (hi != hj));
        let si: u8 = kani::any();
        let sj: u8 = kani::any();
        kani::assume(si < 3 && sj < 3);
        let st = |x: u8| match x { 0 => KeyState::Up, 1 => KeyState::Down, _ => KeyState::SingleShot };
        assert!((st(si) == st(sj)) == (si == sj));
        assert!((KeyEvent::new(a, st(si)) == KeyEvent::new(b, st(sj))) == (i == j && si == sj));
        let c: char = kani::any();
        let d: char = kani::any();
        assert!((DecodedKey::Unicode(c) == DecodedKey::Unicode(d)) == (c == d));
        assert!((DecodedKey::RawKey(a) == DecodedKey::RawKey(b)) == (i == j));
        assert!(DecodedKey::RawKey(a) != DecodedKey::Unicode(c));
    }

    /// A3e: char::from_u32 is Some(x as char) exactly on the Unicode scalar values, None on surrogates and above U+10FFFF
    #[kani::proof]
    fn char_from_u32_is_checked_cast() {
        let x: u32 = kani::any();
        let valid = x <= 0xD7FF || (0xE000 <= x && x <= 0x10FFFF);
        match char::from_u32(x) {
            Some(c) => assert!(valid && c as u32 == x),
            None => assert!(!valid),
        }
    }

    /// A3b: char::from(u8) / u8.into() is the `as char` cast
    #[kani::proof]
    fn char_from_u8_is_cast() {
        let x: u8 = kani::any();
        assert!(char::from(x) == x as char);
        let c: char = x.into();
        assert!(c == x as char);
        assert!(c as u32 == x as u32);
    }
}

// ---------------------------------------------------------------------------------------------------------------------
// Counterexample harnesses: the executable renderings of the contracts (xspec.rs, shared with the native replayer) run
// against the real code on symbolic inputs. Used after Verus rejects an obligation, to obtain concrete values through
// Kani's concrete playback, and in the thorough tier as a second, *bounded* back end (bounds: <= 24 bits, <= 4 bytes,
// <= 3 events, one Keyboard operation from any frame/prefix state). Never counted as proof.
use pc_keyboard::layouts::*;
include!("xgen.rs");
include!("xspec.rs");

#[cfg(kani)]
mod cex {
    use super::*;

    #[kani::proof]
    fn word() {
        let w: u16 = kani::any();
        kani::assume(w < 2048);
        assert!(scenario_word(w, false));
    }

    #[kani::proof]
    #[kani::unwind(26)]
    fn bits() {
        let bits: u32 = kani::any();
        let n: u8 = kani::any();
        let clear_at: u8 = kani::any();
        kani::assume(n & 0x7F <= 24);
        assert!(scenario_bits(bits, n, clear_at, false));
    }

    #[kani::proof]
    #[kani::unwind(6)]
    fn stream1() {
        let b0: u8 = kani::any();
        let b1: u8 = kani::any();
        let b2: u8 = kani::any();
        let b3: u8 = kani::any();
        let n: u8 = kani::any();
        kani::assume(n & 0x7F <= 4);
        assert!(scenario_stream(1, [b0, b1, b2, b3], n, false));
    }

    #[kani::proof]
    #[kani::unwind(6)]
    fn stream2() {
        let b0: u8 = kani::any();
        let b1: u8 = kani::any();
        let b2: u8 = kani::any();
        let b3: u8 = kani::any();
        let n: u8 = kani::any();
        kani::assume(n & 0x7F <= 4);
        assert!(scenario_stream(2, [b0, b1, b2, b3], n, false));
    }

    fn events_with(aspect: u8) {
        let k0: u8 = kani::any();
        let k1: u8 = kani::any();
        let k2: u8 = kani::any();
        let s0: u8 = kani::any();
        let s1: u8 = kani::any();
        let s2: u8 = kani::any();
        let modes: u8 = kani::any();
        let n: u8 = kani::any();
        kani::assume(k0 < X_NKEYS && k1 < X_NKEYS && k2 < X_NKEYS && s0 < 3 && s1 < 3 && s2 < 3 && modes < 64 && n <= 3);
        assert!(scenario_events_aspect([k0, k1, k2], [s0, s1, s2], modes, n, aspect, false));
    }

    #[kani::proof]
    #[kani::unwind(5)]
    fn events() {
        events_with(3);
    }

    #[kani::proof]
    #[kani::unwind(5)]
    fn events_mods() {
        events_with(1);
    }

    #[kani::proof]
    #[kani::unwind(5)]
    fn events_decode() {
        events_with(2);
    }

    /// Panic search over key-event histories deeper than the relational scenarios (a counter or accumulator in the event
    /// decoder that only traps after a particular sequence, e.g. an `unwrap` on a value built from several presses):
    /// eight symbolic events, straight-line, panic / overflow checks only. Bounded (<= 8 events); never counted as proof.
    #[kani::proof]
    #[kani::unwind(10)]
    fn events_deep() {
        let mode: bool = kani::any();
        let ks: [u8; 8] = kani::any();
        let ss: [u8; 8] = kani::any();
        assert!(scenario_events_deep(mode, ks, ss, false));
    }

    /// `pre_bits` is a constant of the harness so that CBMC knows how many bits are pending
    fn keyboard(set: u8, pre_bits: u8) {
        let bits: u16 = kani::any();
        let p0: u8 = kani::any();
        let pre_bytes: u8 = kani::any();
        let op: u8 = kani::any();
        let arg: u16 = kani::any();
        let probe: u8 = kani::any();
        kani::assume(pre_bytes <= 2 && op < 6 && bits < 1024);
        kani::assume(p0 == 0xE0 || p0 == 0xE1 || p0 == 0xF0);
        kani::assume((arg & 0xFF) < X_NKEYS as u16 || op != 4);
        assert!(scenario_keyboard(set, bits, pre_bits, [p0, 0xF0], pre_bytes, op, arg, probe, false));
    }

    #[kani::proof]
    #[kani::unwind(24)]
    fn keyboard1_p0() {
        keyboard(1, 0);
    }

    #[kani::proof]
    #[kani::unwind(24)]
    fn keyboard1_p10() {
        keyboard(1, 10);
    }

    #[kani::proof]
    #[kani::unwind(24)]
    fn keyboard2_p0() {
        keyboard(2, 0);
    }

    #[kani::proof]
    #[kani::unwind(24)]
    fn keyboard2_p4() {
        keyboard(2, 4);
    }

    #[kani::proof]
    #[kani::unwind(24)]
    fn keyboard2_p10() {
        keyboard(2, 10);
    }

    #[kani::proof]
    fn layout_total() {
        let layout: u8 = kani::any();
        let form: u8 = kani::any();
        let key: u8 = kani::any();
        let mods: u16 = kani::any();
        let mode: bool = kani::any();
        kani::assume(layout < X_NLAYOUTS && form < 3 && key < X_NKEYS && mods < 512);
        assert!(scenario_layout_total(layout, form, key, mods, mode, false));
    }
}
