//! Executable renderings of the per-cell property formulas (lemmas/ldefs.rs) used ONLY to find and replay concrete
//! failing inputs on the real code after the verifier rejected an obligation. They never decide a property.
use crate::generated::*;
use crate::*;

pub fn all_mods() -> Vec<Modifiers> {
    (0u32..512)
        .map(|i| Modifiers {
            lshift: i & 1 != 0,
            rshift: i & 2 != 0,
            lctrl: i & 4 != 0,
            rctrl: i & 8 != 0,
            numlock: i & 16 != 0,
            capslock: i & 32 != 0,
            lalt: i & 64 != 0,
            ralt: i & 128 != 0,
            rctrl2: i & 256 != 0,
        })
        .collect()
}

pub fn m0() -> Modifiers {
    Modifiers { lshift: false, rshift: false, lctrl: false, rctrl: false, numlock: true, capslock: false, lalt: false, ralt: false, rctrl2: false }
}

pub fn level_mods(l: usize) -> Modifiers {
    match l {
        0 => m0(),
        1 => Modifiers { lshift: true, ..m0() },
        _ => Modifiers { ralt: true, ..m0() },
    }
}

// the five facts from the nine flags, as in lemmas/ldefs.rs (not through the crate's predicates)
fn shift(m: &Modifiers) -> bool {
    m.lshift || m.rshift
}
fn ctrl(m: &Modifiers) -> bool {
    m.lctrl || m.rctrl
}
fn altgr(m: &Modifiers) -> bool {
    m.ralt || (m.lalt && (m.lctrl || m.rctrl))
}

const MODES: [HandleControl; 2] = [HandleControl::Ignore, HandleControl::MapLettersToUnicode];

fn mode_name(h: HandleControl) -> &'static str {
    match h {
        HandleControl::Ignore => "Ignore",
        HandleControl::MapLettersToUnicode => "Map",
    }
}

fn map(l: &str, k: KeyCode, m: &Modifiers, h: HandleControl) -> DecodedKey {
    layout_map(l, k, m, h).expect("unknown layout")
}

fn uni(c: u32) -> DecodedKey {
    DecodedKey::Unicode(char::from_u32(c).unwrap())
}

fn is_numpad(k: KeyCode) -> bool {
    matches!(
        k,
        KeyCode::Numpad0 | KeyCode::Numpad1 | KeyCode::Numpad2 | KeyCode::Numpad3 | KeyCode::Numpad4 | KeyCode::Numpad5 | KeyCode::Numpad6
            | KeyCode::Numpad7 | KeyCode::Numpad8 | KeyCode::Numpad9 | KeyCode::NumpadPeriod | KeyCode::NumpadAdd | KeyCode::NumpadSubtract
            | KeyCode::NumpadMultiply | KeyCode::NumpadDivide | KeyCode::NumpadEnter | KeyCode::NumpadLock
    )
}

fn alias(k: KeyCode) -> Option<KeyCode> {
    Some(match k {
        KeyCode::Numpad0 => KeyCode::Insert,
        KeyCode::Numpad1 => KeyCode::End,
        KeyCode::Numpad2 => KeyCode::ArrowDown,
        KeyCode::Numpad3 => KeyCode::PageDown,
        KeyCode::Numpad4 => KeyCode::ArrowLeft,
        KeyCode::Numpad6 => KeyCode::ArrowRight,
        KeyCode::Numpad7 => KeyCode::Home,
        KeyCode::Numpad8 => KeyCode::ArrowUp,
        KeyCode::Numpad9 => KeyCode::PageUp,
        _ => return None,
    })
}

fn lower_upper(a: DecodedKey, b: DecodedKey) -> bool {
    match (a, b) {
        (DecodedKey::Unicode(x), DecodedKey::Unicode(y)) => {
            let (x, y) = (x as u32, y as u32);
            ((0x61..=0x7a).contains(&x) || ((0xe0..=0xfe).contains(&x) && x != 0xf7)) && y + 0x20 == x
        }
        _ => false,
    }
}

fn fail1(what: &str, l: &str, k: &str, m: &Modifiers, h: HandleControl, obs: DecodedKey, exp: &str) -> String {
    format!(
        "FAILS {}: layout={} key={} mods={} mode={} observed={} expected={} | replay: layout {} {} {} {}",
        what, l, k, mods_to_bits(m), mode_name(h), fmt_decoded(obs), exp, l, k, mods_to_bits(m), mode_name(h)
    )
}

fn fail2(what: &str, l: &str, k: &str, m: &Modifiers, n: &Modifiers, h: HandleControl, a: DecodedKey, b: DecodedKey) -> String {
    format!(
        "FAILS {}: layout={} key={} mode={} mods1={} -> {} but mods2={} -> {} (must be equal) | replay: layout {} {} {} {} ; layout {} {} {} {}",
        what, l, k, mode_name(h), mods_to_bits(m), fmt_decoded(a), mods_to_bits(n), fmt_decoded(b), l, k, mods_to_bits(m), mode_name(h), l, k,
        mods_to_bits(n), mode_name(h)
    )
}

fn selects(lvl: usize, m: &Modifiers, h: HandleControl) -> bool {
    !m.capslock
        && !(h == HandleControl::MapLettersToUnicode && ctrl(m))
        && match lvl {
            0 => !shift(m) && !altgr(m),
            1 => shift(m) && !altgr(m),
            _ => altgr(m) && !shift(m),
        }
}

/// cellcheck <prop> <layout> <key-or-char> [extra...]
pub fn run(args: &[String]) -> String {
    let prop = args[0].as_str();
    let l = args[1].as_str();
    let mods = all_mods();
    match prop {
        "C09" => {
            let k = key_from(&args[2]);
            let base = map(l, k, &m0(), HandleControl::Ignore);
            let letter = matches!(base, DecodedKey::Unicode(c) if ('a'..='z').contains(&c));
            for m in &mods {
                let with = map(l, k, m, HandleControl::MapLettersToUnicode);
                if letter && ctrl(m) && !m.lalt && !m.ralt {
                    let c = if let DecodedKey::Unicode(c) = base { c as u32 } else { 0 };
                    if with != uni(c - 0x60) {
                        return fail1("C09 ctrl+letter", l, &args[2], m, HandleControl::MapLettersToUnicode, with, &fmt_decoded(uni(c - 0x60)));
                    }
                }
                if !letter || !ctrl(m) {
                    let without = map(l, k, m, HandleControl::Ignore);
                    if with != without {
                        return fail1("C09 ctrl handling must change nothing here", l, &args[2], m, HandleControl::MapLettersToUnicode, with, &fmt_decoded(without));
                    }
                }
                if !m.lalt && ctrl(m) {
                    // mapping disabled: holding Ctrl changes nothing (left Alt aside, with which Ctrl forms the AltGr chord)
                    let off = map(l, k, m, HandleControl::Ignore);
                    let noctrl = map(l, k, &Modifiers { lctrl: false, rctrl: false, ..m.clone() }, HandleControl::Ignore);
                    if off != noctrl {
                        return fail1("C09 with mapping disabled Ctrl must change nothing", l, &args[2], m, HandleControl::Ignore, off, &fmt_decoded(noctrl));
                    }
                }
            }
            "HOLDS".into()
        }
        "C10" | "C11" => {
            let k = key_from(&args[2]);
            let letter = lower_upper(map(l, k, &m0(), HandleControl::Ignore), map(l, k, &level_mods(1), HandleControl::Ignore));
            for h in MODES {
                let outs: Vec<DecodedKey> = mods.iter().map(|m| map(l, k, m, h)).collect();
                for (i, m) in mods.iter().enumerate() {
                    let a = outs[i];
                    for (j, n) in mods.iter().enumerate() {
                        let related = if prop == "C10" {
                            m.capslock != n.capslock
                                && m.lctrl == n.lctrl
                                && m.rctrl == n.rctrl
                                && m.lalt == n.lalt
                                && m.ralt == n.ralt
                                && m.rctrl2 == n.rctrl2
                                && m.numlock == n.numlock
                                && (if letter { shift(m) != shift(n) } else { m.lshift == n.lshift && m.rshift == n.rshift })
                        } else {
                            shift(m) == shift(n) && ctrl(m) == ctrl(n) && altgr(m) == altgr(n) && m.capslock == n.capslock && (!is_numpad(k) || m.numlock == n.numlock)
                        };
                        if related {
                            let b = outs[j];
                            if a != b {
                                return fail2(if prop == "C10" { if letter { "C10 CapsLock must invert Shift on this letter key" } else { "C10 CapsLock must not affect this key" } } else { "C11 same five facts, different output" }, l, &args[2], m, n, h, a, b);
                            }
                        }
                    }
                }
            }
            "HOLDS".into()
        }
        "C12" => {
            // args[2] = U+XXXX
            let cp = u32::from_str_radix(args[2].trim_start_matches("U+"), 16).unwrap();
            for (n, k) in KEYCODES {
                for lvl in 0..3 {
                    if map(l, *k, &level_mods(lvl), HandleControl::Ignore) == uni(cp) {
                        return format!("HOLDS witness key={} level={}", n, lvl);
                    }
                }
            }
            format!("FAILS C12: layout={} no key types U+{:04X} at the base, Shift or AltGr level (all {} keys x 3 levels tried) | replay: cellcheck C12 {} U+{:04X}", l, cp, KEYCODES.len(), l, cp)
        }
        "C15" => {
            // args: key kind value   kind in digit|const|enter|decimal
            let kn = &args[2];
            let k = key_from(kn);
            let kind = args[3].as_str();
            let v = if args.len() > 4 { u32::from_str_radix(args[4].trim_start_matches("0x"), 16).unwrap() } else { 0 };
            for h in MODES {
                for m in &mods {
                    let o = map(l, k, m, h);
                    match kind {
                        "digit" => {
                            if m.numlock && o != uni(v) {
                                return fail1("C15 numpad digit with NumLock on", l, kn, m, h, o, &fmt_decoded(uni(v)));
                            }
                            if !m.numlock {
                                if let Some(a) = alias(k) {
                                    if o != DecodedKey::RawKey(a) {
                                        return fail1("C15 numpad key with NumLock off", l, kn, m, h, o, &fmt_decoded(DecodedKey::RawKey(a)));
                                    }
                                }
                            }
                        }
                        "const" => {
                            if o != uni(v) {
                                return fail1("C15 key must type the same character in every state", l, kn, m, h, o, &fmt_decoded(uni(v)));
                            }
                        }
                        "enter" => {
                            let r = map(l, KeyCode::Return, m, h);
                            if o != r || o != uni(0x0A) {
                                return fail1("C15 NumpadEnter must type what Return types (U+000A)", l, kn, m, h, o, &fmt_decoded(r));
                            }
                        }
                        _ => {
                            let e = if m.numlock { uni(v) } else { uni(0x7f) };
                            if o != e {
                                return fail1("C15 numpad decimal key", l, kn, m, h, o, &fmt_decoded(e));
                            }
                        }
                    }
                }
            }
            "HOLDS".into()
        }
        "C16" => {
            // args: raw|alias key
            let kind = args[2].as_str();
            let kn = &args[3];
            let k = key_from(kn);
            for h in MODES {
                for m in &mods {
                    let o = map(l, k, m, h);
                    if kind == "raw" {
                        if o != DecodedKey::RawKey(k) {
                            return fail1("C16 character-less key must decode to its own raw code", l, kn, m, h, o, &fmt_decoded(DecodedKey::RawKey(k)));
                        }
                    } else if let DecodedKey::RawKey(k2) = o {
                        if !(k2 == k || (!m.numlock && alias(k) == Some(k2))) {
                            return fail1("C16 raw result must be the key itself or its NumLock-off alias", l, kn, m, h, o, &fmt_decoded(DecodedKey::RawKey(k)));
                        }
                    }
                }
            }
            "HOLDS".into()
        }
        "C03" => {
            // args: key level(0|1|2) accepted-codepoints (hex, comma separated, or "none")
            let kn = &args[2];
            let k = key_from(kn);
            let lvl: usize = args[3].parse().unwrap();
            let acc: Vec<u32> = if args[4] == "none" { vec![] } else { args[4].split(',').map(|x| u32::from_str_radix(x, 16).unwrap()).collect() };
            if lvl == 2 {
                let a = map(l, k, &level_mods(2), HandleControl::Ignore);
                let b = map(l, k, &level_mods(0), HandleControl::Ignore);
                if a == b {
                    return "HOLDS (no distinct AltGr level)".into();
                }
                if acc.is_empty() {
                    return fail1("C03 key has an AltGr-level character the standard does not have", l, kn, &level_mods(2), HandleControl::Ignore, a, &format!("{} (same as base level)", fmt_decoded(b)));
                }
            }
            let exp: Vec<String> = acc.iter().map(|c| fmt_decoded(uni(*c))).collect();
            for h in MODES {
                for m in &mods {
                    if selects(lvl, m, h) {
                        let o = map(l, k, m, h);
                        if !acc.iter().any(|c| o == uni(*c)) {
                            return fail1("C03 wrong character at this level", l, kn, m, h, o, &exp.join(" or "));
                        }
                    }
                }
            }
            "HOLDS".into()
        }
        "C17" => {
            // args: layout form(value|reference)
            let form = if args[2] == "value" { "Any:" } else { "RefAny:" };
            let w = format!("{}{}", form, l);
            for h in MODES {
                for m in &mods {
                    for (n, k) in KEYCODES {
                        // a panic is an outcome too: the wrapper must panic exactly where the wrapped layout does
                        let a = std::panic::catch_unwind(std::panic::AssertUnwindSafe(|| map(&w, *k, m, h)));
                        let b = std::panic::catch_unwind(std::panic::AssertUnwindSafe(|| map(l, *k, m, h)));
                        let (a, b) = match (a, b) {
                            (Ok(a), Ok(b)) => (a, b),
                            (Err(_), Err(_)) => continue,
                            (a, b) => {
                                return format!("FAILS C17: wrapper {} {} but {} {} for key={} mods={} mode={} | replay: layout {} {} {} {} ; layout {} {} {} {}", w, if a.is_err() { "panics" } else { "returns" }, l, if b.is_err() { "panics" } else { "returns" }, n, mods_to_bits(m), mode_name(h), w, n, mods_to_bits(m), mode_name(h), l, n, mods_to_bits(m), mode_name(h));
                            }
                        };
                        if a != b {
                            return format!("FAILS C17: wrapper {} returns {} but {} returns {} for key={} mods={} mode={} | replay: layout {} {} {} {} ; layout {} {} {} {}", w, fmt_decoded(a), l, fmt_decoded(b), n, mods_to_bits(m), mode_name(h), w, n, mods_to_bits(m), mode_name(h), l, n, mods_to_bits(m), mode_name(h));
                        }
                    }
                }
            }
            "HOLDS".into()
        }
        _ => "UNSUPPORTED".into(),
    }
}
