//! Native sweeps: the scenarios of xspec.rs run over large, structured (where feasible exhaustive) input spaces on the
//! real code. They are *stand-ins* used when the deductive verifier cannot decide (refactored code, lost anchors) and as
//! concrete-input finders; a hit is printed as the equivalent `kanicex <scenario> <values>` replay command.
//! None of this is counted as proof; each sweep states its bound.
use crate::*;

fn hit(sc: &str, vals: &[u64]) -> String {
    format!("FAILS kanicex {} {}", sc, vals.iter().map(|v| v.to_string()).collect::<Vec<_>>().join(" "))
}

fn guarded<F: FnOnce() -> bool + std::panic::UnwindSafe>(f: F) -> bool {
    // a panic in the real code counts as a failure
    match std::panic::catch_unwind(f) {
        Ok(v) => v || crate::panic_only(),
        Err(_) => crate::panic_not_mine(),
    }
}

pub fn run(args: &[String]) -> String {
    std::panic::set_hook(Box::new(|_| {}));
    match args[0].as_str() {
        // every 16-bit word below 2048: complete for whole-word decoding
        "words" => {
            for w in 0u16..2048 {
                if !guarded(move || scenario_word(w, false)) {
                    return hit("word", &[w as u64]);
                }
            }
            "HOLDS bound: all 2048 eleven-bit words (complete)".into()
        }
        // bit-serial: every frame after every frame (2048 x 2048, 22 bits), and clear() at every position of every first frame
        "bits" => {
            for a in 0u32..2048 {
                for b in 0u32..2048 {
                    let bits = a | (b << 11);
                    if !guarded(move || scenario_bits(bits, 22, 255, false)) {
                        return hit("bits", &[bits as u64, 22, 255]);
                    }
                }
                for c in 0u8..=11 {
                    // abandon frame `a` after c bits, then shift in a full frame taken from the following bits
                    for b in [0x402u32, 0x7FF, 0x000, 0x2AA, 0x555, 0x401, 0x6D3] {
                        let bits = (a & ((1 << c) - 1)) | (b << c);
                        if !guarded(move || scenario_bits(bits, c + 11, c, false)) {
                            return hit("bits", &[bits as u64, (c + 11) as u64, c as u64]);
                        }
                    }
                }
            }
            // the other public constructor
            for a in 0u32..2048 {
                for b in [0x402u32, 0x7FF, 0x000, 0x2AA, 0x555, 0x401, 0x6D3] {
                    let bits = a | (b << 11);
                    if !guarded(move || scenario_bits(bits, 22 | 0x80, 255, false)) {
                        return hit("bits", &[bits as u64, 22 | 0x80, 255]);
                    }
                }
            }
            "HOLDS bound: all 4,194,304 ordered pairs of frames bit by bit; clear() after 0..=11 bits of every frame followed by 7 probe frames; every frame + 7 probe frames on a decoder from Default::default()".into()
        }
        // byte streams: all 1-, 2- and 3-byte streams, and every 3-byte stream followed by 8 probe bytes
        "stream" => {
            let set: u8 = args[1].parse().unwrap();
            let sc = if set == 1 { "stream1" } else { "stream2" };
            for a in 0u32..256 {
                for b in 0u32..256 {
                    for c in 0u32..256 {
                        for d in [0x1Cu32, 0xF0, 0xE0, 0x9C, 0x00, 0xAA, 0x75, 0x14] {
                            let by = [a as u8, b as u8, c as u8, d as u8];
                            if !guarded(move || scenario_stream(set, by, 4, false)) {
                                return hit(sc, &[a as u64, b as u64, c as u64, d as u64, 4]);
                            }
                        }
                    }
                }
            }
            // the other public constructor
            for a in 0u32..256 {
                for b in 0u32..256 {
                    for c in [0x1Cu32, 0xF0, 0xE0, 0x9C, 0x00, 0xAA, 0x75, 0x14] {
                        let by = [a as u8, b as u8, c as u8, 0];
                        if !guarded(move || scenario_stream(set, by, 3 | 0x80, false)) {
                            return hit(sc, &[a as u64, b as u64, c as u64, 0, 3 | 0x80]);
                        }
                    }
                }
            }
            "HOLDS bound: all 16,777,216 three-byte streams from a fresh decoder, each followed by 8 probe bytes; all two-byte streams + 8 probes on a decoder from Default::default()".into()
        }
        // key events: all ordered pairs of (key, state) events under all mode / layout-change schedules, then a probe third
        // event (also the same key a third time). `events <aspect>`: 1 = modifiers only (C04), 2 = decoded keys only (C14), 3 = both
        "events" => {
            let aspect: u8 = if args.len() > 1 { args[1].parse().unwrap() } else { 3 };
            let sc = match aspect { 1 => "events_mods", 2 => "events_decode", 6 => "events_values", 7 => "events_values_all", _ => "events" };
            let n = X_NKEYS as u32;
            for k0 in 0..n {
                for s0 in 0..3u32 {
                    for k1 in 0..n {
                        for s1 in 0..3u32 {
                            for modes in 0..64u32 {
                                for k2 in [0u32, 40, k1] {
                                    let (a, b, c) = (k0 as u8, k1 as u8, k2 as u8);
                                    if !guarded(move || scenario_events_aspect([a, b, c], [s0 as u8, s1 as u8, 1], modes as u8, 3, aspect, false)) {
                                        return hit(sc, &[k0 as u64, k1 as u64, k2 as u64, s0 as u64, s1 as u64, 1, modes as u64, 3]);
                                    }
                                }
                            }
                        }
                    }
                }
            }
            "HOLDS bound: all ordered pairs of (key, state) events x 64 mode / layout-change schedules, each followed by 3 probe presses (incl. the same key again)".into()
        }
        // the event scenarios with each of the crate's own layouts (aspect as for `events`): all ordered pairs of (key, state)
        // events + a probe press, 8 mode schedules
        "events-real" => {
            let aspect: u8 = if args.len() > 1 { args[1].parse().unwrap() } else { 3 };
            let n = X_NKEYS as u32;
            for layout in 0u8..10 {
                for k0 in 0..n {
                    for s0 in 0..3u32 {
                        for k1 in 0..n {
                            for s1 in [0u32, 1] {
                                for k2 in [k1, 16] {
                                    for modes in [0u8, 7, 2, 5] {
                                        let (a, b, c) = (k0 as u8, k1 as u8, k2 as u8);
                                        if !guarded(move || scenario_events_real([a, b, c], [s0 as u8, s1 as u8, 1], modes, layout, aspect, false)) {
                                            return hit("events_real", &[k0 as u64, k1 as u64, k2 as u64, s0 as u64, s1 as u64, 1, modes as u64, layout as u64, aspect as u64]);
                                        }
                                    }
                                }
                            }
                        }
                    }
                }
            }
            "HOLDS bound: each of the 10 layouts (through the wrapper) x all ordered pairs of (key, state) events + a probe press x 4 mode schedules".into()
        }
        // C17 (switching): all ordered pairs of (key, state) events + a repeat / probe third press, the variant switched before
        // the 2nd or 3rd event, three pairs of variants, both modes; compared with a decoder that held the target all along
        "switching" => {
            let n = X_NKEYS as u32;
            for k0 in 0..n {
                for s0 in 0..3u32 {
                    for k1 in 0..n {
                        for s1 in [0u32, 1] {
                            for k2 in [k1, k0, 16] {
                                for at in [1u8, 2] {
                                    for (from, to) in [(0u8, 2u8), (1, 3), (2, 4), (0x80, 2), (0x81, 3), (0x80, 6), (0x82, 9)] {
                                        for mode in [false, true] {
                                            let (a, b, c) = (k0 as u8, k1 as u8, k2 as u8);
                                            if !guarded(move || scenario_switching([a, b, c], [s0 as u8, s1 as u8, 1], at, from, to, mode, false)) {
                                                return hit("switching", &[k0 as u64, k1 as u64, k2 as u64, s0 as u64, s1 as u64, 1, at as u64, from as u64, to as u64, mode as u64]);
                                            }
                                        }
                                    }
                                }
                            }
                        }
                    }
                }
            }
            "HOLDS bound: all ordered pairs of (key, state) events + third press (same key / first key / a letter), variant switched before event 2 or 3, 3 variant pairs by value + 4 by reference (compared with a by-value decoder), both modes".into()
        }
        // C07 proper: resynchronisation after every 1..3-byte stream whose last output is an event or error, 6 probe suffixes;
        // and the bound on consecutive 'no event yet' over all 4-byte streams of prefix-like bytes
        "resync" => {
            let set: u8 = args[1].parse().unwrap();
            let sc = if set == 1 { "resync1" } else { "resync2" };
            let probes: [[u8; 3]; 6] = [[0x1C, 0xF0, 0x1C], [0xE0, 0x75, 0x9C], [0xF0, 0x14, 0x14], [0xE1, 0x14, 0x77], [0xE0, 0xF0, 0x74], [0x9D, 0xE0, 0x9D]];
            for a in 0u32..256 {
                for b in 0u32..256 {
                    for c in 0u32..256 {
                        let by = [a as u8, b as u8, c as u8, 0];
                        for p in probes {
                            if !guarded(move || scenario_resync(set, by, 3, p, false)) {
                                return hit(sc, &[a as u64, b as u64, c as u64, 0, 3, p[0] as u64, p[1] as u64, p[2] as u64]);
                            }
                        }
                    }
                }
            }
            let pre = [0xE0u8, 0xE1, 0xF0, 0x00, 0xAA, 0x1C, 0xFA, 0x83, 0x60, 0x61];
            for a in pre {
                for b in pre {
                    for c in pre {
                        for d in pre {
                            if !guarded(move || scenario_resync(set, [a, b, c, d], 4, [0x1C, 0x1C, 0x1C], false)) {
                                return hit(sc, &[a as u64, b as u64, c as u64, d as u64, 4, 0x1C, 0x1C, 0x1C]);
                            }
                        }
                    }
                }
            }
            "HOLDS bound: all 16,777,216 three-byte streams x 6 probe suffixes; 10,000 four-byte streams of prefix-like bytes".into()
        }
        // C07, thorough tier: ALL 2^32 four-byte streams (16 threads): bound on consecutive 'no event yet', and after an
        // event/error as last output one probe byte must decode as on a fresh decoder
        "resync4" => {
            let set: u8 = args[1].parse().unwrap();
            let sc = if set == 1 { "resync1" } else { "resync2" };
            let found = std::sync::Arc::new(std::sync::Mutex::new(None::<[u8; 4]>));
            let mut hs = Vec::new();
            for t in 0u32..16 {
                let found = found.clone();
                hs.push(std::thread::spawn(move || {
                    for a in (t * 16)..(t * 16 + 16) {
                        for b in 0u32..256 {
                            if found.lock().unwrap().is_some() {
                                return;
                            }
                            for c in 0u32..256 {
                                for d in 0u32..256 {
                                    let by = [a as u8, b as u8, c as u8, d as u8];
                                    let ok = std::panic::catch_unwind(move || scenario_resync(set, by, 4, [0x1C, 0xF0, 0x1C], false)).unwrap_or(false);
                                    if !ok {
                                        *found.lock().unwrap() = Some(by);
                                        return;
                                    }
                                }
                            }
                        }
                    }
                }));
            }
            for h in hs {
                let _ = h.join();
            }
            let r = *found.lock().unwrap();
            match r {
                Some(by) => hit(sc, &[by[0] as u64, by[1] as u64, by[2] as u64, by[3] as u64, 4, 0x1C, 0xF0, 0x1C]),
                None => "HOLDS bound: all 4,294,967,296 four-byte streams (complete for length 4), one probe suffix".into(),
            }
        }
        // C18, thorough tier: long pseudo-random interleavings of all operations, with line noise, Keyboard vs three stages
        "fuzz" => {
            let set: u8 = args[1].parse().unwrap();
            let seed: u64 = args[2].parse().unwrap();
            let steps: u64 = args[3].parse().unwrap();
            fn go<S: ScancodeSet>(mut kb: Keyboard<RecordingLayout, S>, mut s: S, seed: u64, steps: u64) -> Option<u64> {
                let mut p = Ps2Decoder::new();
                let mut e = EventDecoder::new(RecordingLayout(0), HandleControl::Ignore);
                let mut x = seed.wrapping_mul(0x9E3779B97F4A7C15) | 1;
                for i in 0..steps {
                    x ^= x << 13;
                    x ^= x >> 7;
                    x ^= x << 17;
                    let r = (x >> 11) as u32;
                    let same = match r % 16 {
                        0..=7 => {
                            let bit = (r >> 8) & 1 != 0;
                            let a = kb.add_bit(bit);
                            let b = match p.add_bit(bit) {
                                Ok(Some(byte)) => s.advance_state(byte),
                                Ok(None) => Ok(None),
                                Err(er) => Err(er),
                            };
                            a == b
                        }
                        8 | 9 => {
                            // one word in four over the whole u16 domain (bits 11..15 set)
                            let w = if r & 0xC0 == 0 { (r >> 8) as u16 } else { ((r >> 8) & 0x7FF) as u16 };
                            let a = kb.add_word(w);
                            let b = match p.add_word(w) {
                                Ok(byte) => s.advance_state(byte),
                                Err(er) => Err(er),
                            };
                            a == b
                        }
                        10 | 11 => {
                            let by = (r >> 8) as u8;
                            kb.add_byte(by) == s.advance_state(by)
                        }
                        12 => {
                            kb.clear();
                            p.clear();
                            true
                        }
                        13 | 14 => {
                            let k = x_keycode((r >> 8) as u8);
                            let st = x_state((r >> 16) as u8);
                            let a = kb.process_keyevent(KeyEvent::new(k, st));
                            let b = e.process_keyevent(KeyEvent::new(k, st));
                            a == b
                        }
                        _ => {
                            let h = x_mode((r >> 8) & 1 != 0);
                            kb.set_ctrl_handling(h);
                            e.set_ctrl_handling(h);
                            kb.get_ctrl_handling() == e.get_ctrl_handling()
                        }
                    };
                    if !same {
                        if !crate::panic_only() { return Some(i); }
                    }
                }
                None
            }
            let r = std::panic::catch_unwind(move || {
                if set == 1 {
                    go(Keyboard::new(ScancodeSet1::new(), RecordingLayout(0), HandleControl::Ignore), ScancodeSet1::new(), seed, steps)
                } else {
                    go(Keyboard::new(ScancodeSet2::new(), RecordingLayout(0), HandleControl::Ignore), ScancodeSet2::new(), seed, steps)
                }
            });
            match r {
                Ok(None) => format!("HOLDS bound: {} pseudo-random operations (seed {}) on a Keyboard and three separate stages, every result compared", steps, seed),
                Ok(Some(i)) => format!("FAILS fuzz set={} seed={} first mismatch at step {}", set, seed, i),
                Err(_) if crate::panic_not_mine() => format!("HOLDS bound: pseudo-random operations (seed {}) on a Keyboard and three separate stages until the real code panicked (a panic is C08's hit)", seed),
                Err(_) => format!("FAILS fuzz set={} seed={} PANIC", set, seed),
            }
        }
        // C19 proper: make/break pairing for every prefix and code (complete)
        "pairing" => {
            let set: u8 = args[1].parse().unwrap();
            let sc = if set == 1 { "pairing1" } else { "pairing2" };
            for hist in 0u32..256 {
                for prefix in [0u8, 0xE0, 0xE1] {
                    for code in 0u32..256 {
                        let (h, c) = (hist as u8, code as u8);
                        if !guarded(move || scenario_pairing_after(set, h, prefix, c, false)) {
                            return hit(sc, &[hist as u64, prefix as u64, code as u64]);
                        }
                    }
                }
            }
            // injectivity after every one-byte history
            let isc = if set == 1 { "injective1" } else { "injective2" };
            for hist in 0u32..256 {
                let mut seen: Vec<(KeyCode, u8, u8)> = Vec::new();
                for prefix in [0u8, 0xE0, 0xE1] {
                    for code in 0u32..256 {
                        if let Some(k) = std::panic::catch_unwind(move || x_press_after(set, hist as u8, prefix, code as u8)).unwrap_or(None) {
                            if let Some((_, p0, c0)) = seen.iter().find(|(k0, _, _)| *k0 == k) {
                                return hit(isc, &[hist as u64, *p0 as u64, *c0 as u64, prefix as u64, code as u64]);
                            }
                            seen.push((k, prefix, code as u8));
                        }
                    }
                }
            }
            "HOLDS bound: 256 one-byte histories x 3 prefixes x 256 codes: make/break pairing and injectivity".into()
        }
        // Keyboard vs three separate stages: structured sample of frame / prefix states x every operation argument
        "keyboard" => {
            let set: u8 = args[1].parse().unwrap();
            let sc = if set == 1 { "keyboard1" } else { "keyboard2" };
            let pats: [u16; 3] = [0, 0x3FF, 0x2AA];
            for pre_bits in 0u8..=10 {
                for bits in pats {
                    for p0 in [0xE0u8, 0xE1, 0xF0] {
                        for pre_bytes in 0u8..=2 {
                            for probe in [0x1Cu8, 0xF0, 0x75, 0x9C] {
                                let mut ops: Vec<(u8, u16)> = vec![(0, 0), (0, 1), (3, 0), (5, 0), (5, 1)];
                                for w in 0u16..2048 {
                                    ops.push((1, w));
                                }
                                if pre_bits == 0 && bits == 0 && probe == 0x1C {
                                    // every word with any of the bits 11..15 set, once per prefix state
                                    for w in 2048u32..65536 {
                                        ops.push((1, w as u16));
                                    }
                                }
                                for b in 0u16..256 {
                                    ops.push((2, b));
                                }
                                for k in 0..X_NKEYS as u16 {
                                    for st in 0u16..3 {
                                        ops.push((4, k | (st << 8)));
                                    }
                                }
                                for (op, arg) in ops {
                                    if !guarded(move || scenario_keyboard(set, bits, pre_bits, [p0, 0xF0], pre_bytes, op, arg, probe, false)) {
                                        return hit(sc, &[bits as u64, pre_bits as u64, p0 as u64, 0xF0, pre_bytes as u64, op as u64, arg as u64, probe as u64]);
                                    }
                                }
                            }
                        }
                    }
                }
            }
            "HOLDS bound: 11 pending-bit counts x 3 bit patterns x 7 prefix states x 4 probe bytes x every operation (2 bits, 2048 words, 256 bytes, clear, 372 key events, 2 modes); all 65536 words from the 7 prefix states with no bits pending".into()
        }
        // long pseudo-random histories compared step by step with the executable specification: functional defects that
        // need hundreds of steps to show (a counter that wraps, a cache that goes stale)
        "longrun" => {
            let what = args[1].as_str();
            let seed: u64 = args[2].parse().unwrap();
            let steps: u64 = args[3].parse().unwrap();
            let r = std::panic::catch_unwind(move || -> Option<u64> {
                let mut x = seed.wrapping_mul(0x9E3779B97F4A7C15) | 1;
                let mut next = move || {
                    x ^= x << 13;
                    x ^= x >> 7;
                    x ^= x << 17;
                    (x >> 11) as u32
                };
                match what {
                    "bits" => {
                        let mut d = Ps2Decoder::new();
                        let mut st: (u8, u16) = (0, 0);
                        // mostly well-formed frames (so that long runs stay aligned), some noise, rare clear()
                        let mut i = 0u64;
                        while i < steps {
                            let r = next();
                            // second half of the run: whole frames only and no clear() at all, so that the decoder sees an
                            // uninterrupted stream of more than 2^16 bits (free-running counters)
                            let steady = i >= steps / 2;
                            if r % 997 == 0 && !steady {
                                d.clear();
                                st = (0, 0);
                            }
                            let byte = (r >> 8) as u8;
                            let par = byte.count_ones() % 2 == 0;
                            let mut w: u16 = ((byte as u16) << 1) | ((par as u16) << 9) | (1 << 10);
                            if r % 13 == 0 {
                                w ^= 1 << ((r >> 16) % 11);
                            }
                            let nb = if r % 101 == 0 && !steady { (r >> 20) % 11 } else { 11 };
                            for k in 0..nb {
                                let b = (w >> k) & 1 != 0;
                                let got = d.add_bit(b);
                                let (st2, e) = x_ps2_step(st.0, st.1, b);
                                let e = if crate::relational() && st.0 == 10 {
                                    match Ps2Decoder::new().add_word(st.1 | ((b as u16) << 10)) {
                                        Ok(x) => Ok(Some(x)),
                                        Err(x) => Err(x),
                                    }
                                } else {
                                    e
                                };
                                if got != e {
                                    if !crate::panic_only() { return Some(i); }
                                }
                                st = st2;
                                i += 1;
                            }
                            if nb != 11 {
                                d.clear();
                                st = (0, 0);
                            }
                        }
                        None
                    }
                    "stream1" | "stream2" => {
                        let set = if what == "stream1" { 1u8 } else { 2u8 };
                        let mut d1 = ScancodeSet1::new();
                        let mut d2 = ScancodeSet2::new();
                        let mut c = XCtx::Start;
                        let interesting = [0xE0u8, 0xE1, 0xF0, 0x1C, 0x14, 0x11, 0x12, 0x59, 0x5A, 0x70, 0x71, 0x75, 0x77, 0x7C, 0x83, 0x00, 0xAA, 0xFA, 0x9C, 0x9D, 0xB8, 0x1D, 0x38, 0x2A, 0x36, 0xAA, 0xB6];
                        for i in 0..steps {
                            let r = next();
                            let b = if r % 3 == 0 { (r >> 8) as u8 } else { interesting[((r >> 8) as usize) % interesting.len()] };
                            let got = if set == 1 { d1.advance_state(b) } else { d2.advance_state(b) };
                            let e = if set == 1 { x_set1_out(c, b) } else { x_set2_out(c, b) };
                            match e {
                                Some(ev) => {
                                    if got != ev {
                                        if !crate::panic_only() { return Some(i); }
                                    }
                                }
                                None => {
                                    if got == Ok(None) {
                                        if !crate::panic_only() { return Some(i); }
                                    }
                                }
                            }
                            c = if set == 1 { x_set1_next(c, b) } else { x_set2_next(c, b) };
                        }
                        None
                    }
                    _ => {
                        // events: aspect in args[4] (1 modifiers, 2 decoded keys, 3 both)
                        let mut kb = Keyboard::new(ScancodeSet2::new(), RecordingLayout(0), HandleControl::Ignore);
                        let mut ed = EventDecoder::new(RecordingLayout(0), HandleControl::Ignore);
                        let mut m = x_initial_mods();
                        let mut h = HandleControl::Ignore;
                        let mut tag = 0u8;
                        let mods_keys = [KeyCode::LShift, KeyCode::RShift, KeyCode::LControl, KeyCode::RControl, KeyCode::LAlt, KeyCode::RAltGr, KeyCode::RControl2, KeyCode::CapsLock, KeyCode::NumpadLock];
                        let mut last = KeyCode::A;
                        for i in 0..steps {
                            let r = next();
                            if r % 53 == 0 {
                                h = x_mode((r >> 8) & 1 != 0);
                                kb.set_ctrl_handling(h);
                                ed.set_ctrl_handling(h);
                            }
                            if r % 211 == 0 {
                                tag = 1 - tag;
                                ed.change_layout(RecordingLayout(tag));
                            }
                            let k = match r % 4 {
                                0 => mods_keys[((r >> 8) as usize) % 9],
                                1 => last,
                                _ => x_keycode((r >> 8) as u8),
                            };
                            last = k;
                            let s = x_state((r >> 16) as u8 % 5);   // Down twice as likely
                            let s = if (r >> 16) % 5 >= 3 { KeyState::Down } else { s };
                            let a = kb.process_keyevent(KeyEvent::new(k, s));
                            let b = ed.process_keyevent(KeyEvent::new(k, s));
                            let ea = x_decode_out(&m, h, k, s, 0);
                            let eb = x_decode_out(&m, h, k, s, tag);
                            m = x_mods_step(&m, k, s);
                            let aspect: u8 = what.parse().unwrap_or(3);
                            if aspect & 2 != 0 && (a != ea || b != eb) {
                                if !crate::panic_only() { return Some(i); }
                            }
                            if aspect & 1 != 0 && *kb.get_modifiers() != m {
                                if !crate::panic_only() { return Some(i); }
                            }
                        }
                        None
                    }
                }
            });
            match r {
                Ok(None) => format!("HOLDS bound: {} pseudo-random steps (seed {}) of `{}` compared step by step with the executable specification", steps, seed, args[1]),
                Ok(Some(i)) => format!("FAILS longrun {} seed={} first mismatch at step {}", args[1], seed, i),
                Err(_) if crate::panic_not_mine() => format!("HOLDS bound: pseudo-random steps (seed {}) of `{}` until the real code panicked (a panic is C08's hit)", seed, args[1]),
                Err(_) => format!("FAILS longrun {} seed={} PANIC", args[1], seed),
            }
        }
        // soak: long monotonous histories that trip narrow counters (u8 / u16) hidden in decoder state
        "soak" => {
            let r = std::panic::catch_unwind(|| {
                let mut kb = Keyboard::new(ScancodeSet2::new(), RecordingLayout(0), HandleControl::MapLettersToUnicode);
                let mut kb1 = Keyboard::new(ScancodeSet1::new(), RecordingLayout(0), HandleControl::Ignore);
                for (_name, k) in KEYCODES {
                    for st in [KeyState::Down, KeyState::Up, KeyState::SingleShot] {
                        for _ in 0..70_000u32 {
                            std::hint::black_box(kb.process_keyevent(std::hint::black_box(KeyEvent::new(*k, st))));
                        }
                    }
                }
                for b in [0x1Cu8, 0xF0, 0xE0, 0xE1, 0x00, 0xAA, 0xFA, 0x83, 0x9C, 0xFF] {
                    for _ in 0..70_000u32 {
                        let _ = std::hint::black_box(kb.add_byte(std::hint::black_box(b)));
                        let _ = std::hint::black_box(kb1.add_byte(std::hint::black_box(b)));
                    }
                }
                for w in [0x402u16, 0x7FF, 0x000, 0x401] {
                    for _ in 0..70_000u32 {
                        let _ = std::hint::black_box(kb.add_word(std::hint::black_box(w)));
                    }
                }
                for pat in [0u32, 1, 2] {
                    for i in 0..800_000u32 {
                        let bit = match pat { 0 => false, 1 => true, _ => i % 3 == 0 };
                        let _ = std::hint::black_box(kb.add_bit(std::hint::black_box(bit)));
                        if i % 100_003 == 0 {
                            kb.clear();
                        }
                    }
                }
                for i in 0..70_000u32 {
                    kb.set_ctrl_handling(if i % 2 == 0 { HandleControl::Ignore } else { HandleControl::MapLettersToUnicode });
                }
                std::hint::black_box(kb.get_modifiers().clone());
            });
            match r {
                Ok(()) => "HOLDS bound: 70,000 repetitions of every key event, 10 bytes, 4 words, 3 x 800,000 bits, mode changes (no panic)".into(),
                Err(e) => {
                    let msg = if let Some(s) = e.downcast_ref::<&str>() { s.to_string() } else if let Some(s) = e.downcast_ref::<String>() { s.clone() } else { "panic".to_string() };
                    format!("FAILS soak PANIC: {}", msg)
                }
            }
        }
        // every layout object x key x modifier set x mode returns normally: complete for the layout part of C08
        "total" => {
            for layout in 0..X_NLAYOUTS {
                for form in 0u8..3 {
                    for key in 0..X_NKEYS {
                        // beacon: if the process dies (stack overflow, abort) the caller knows where
                        eprintln!("AT {} {} {}", layout, form, key);
                        for mods in 0u16..512 {
                            for mode in [false, true] {
                                if !guarded(move || scenario_layout_total(layout, form, key, mods, mode, false)) {
                                    return hit("layout_total", &[layout as u64, form as u64, key as u64, mods as u64, mode as u64]);
                                }
                            }
                        }
                    }
                }
            }
            "HOLDS bound: every layout object (10 layouts x 3 forms) x 124 keys x 512 modifier sets x 2 modes (complete)".into()
        }
        _ => "UNSUPPORTED".into(),
    }
}
