// Executable renderings of the ghost specifications in contracts/00_ghost.vspec, and "scenario" functions that run the
// real code side by side with them. Shared (via include!) by the Kani counterexample harnesses (symbolic inputs) and by
// the native replayer (the concrete values Kani's playback reports). They are used ONLY to obtain and replay a concrete
// failing input after the deductive verifier has rejected an obligation - they never decide a property.
//
// Every scenario takes plain integers, returns `true` when the real code agreed with the specification on every step,
// and (natively, with `verbose`) prints what it observed.

macro_rules! say {
    ($v:expr, $($arg:tt)*) => {
        #[cfg(not(kani))]
        {
            if $v {
                println!($($arg)*);
            }
        }
    };
}

// ---------------------------------------------------------------- C05 / C06
pub fn x_bit_of(w: u16, i: u32) -> bool {
    (w >> i) & 1 != 0
}

pub fn x_frame_ref(w: u16) -> Result<u8, Error> {
    if x_bit_of(w, 0) {
        return Err(Error::BadStartBit);
    }
    if !x_bit_of(w, 10) {
        return Err(Error::BadStopBit);
    }
    let mut ones = 0u32;
    let mut i = 1;
    while i <= 9 {
        if x_bit_of(w, i) {
            ones += 1;
        }
        i += 1;
    }
    if ones % 2 == 0 {
        return Err(Error::ParityError);
    }
    Ok(((w >> 1) & 0xFF) as u8)
}

pub fn x_ps2_step(n: u8, reg: u16, bit: bool) -> ((u8, u16), Result<Option<u8>, Error>) {
    if n < 10 {
        ((n + 1, reg | ((bit as u16) << n)), Ok(None))
    } else {
        let w = reg | ((bit as u16) << 10);
        (
            (0, 0),
            match x_frame_ref(w) {
                Ok(b) => Ok(Some(b)),
                Err(e) => Err(e),
            },
        )
    }
}

/// whole-word decoding of any 11-bit word
pub fn scenario_word(w: u16, verbose: bool) -> bool {
    let d = Ps2Decoder::new();
    let r = d.add_word(w);
    let e = x_frame_ref(w);
    say!(verbose, "add_word(0x{:04X}) -> {:?}   expected {:?}", w, r, e);
    r == e
}

/// `nbits` (<= 24) bits taken LSB-first from `bits` are shifted into a fresh decoder; clear() is called before bit
/// number `clear_at` (if < nbits). Every result is compared with the bit-serial specification.
pub fn scenario_bits(bits: u32, nbits: u8, clear_at: u8, verbose: bool) -> bool {
    // bit 7 of `nbits` selects the other public constructor, `Default::default()`
    let via_default = nbits & 0x80 != 0;
    let nbits = nbits & 0x7F;
    let mut d = if via_default { <Ps2Decoder as Default>::default() } else { Ps2Decoder::new() };
    if via_default {
        say!(verbose, "decoder constructed with Ps2Decoder::default()");
    }
    let mut st: (u8, u16) = (0, 0);
    let mut ok = true;
    let mut i: u8 = 0;
    while i < 24 {
        if i < nbits {
            if i == clear_at {
                d.clear();
                st = (0, 0);
                say!(verbose, "step {}: clear()", i);
            }
            let b = (bits >> i) & 1 != 0;
            let r = d.add_bit(b);
            let (st2, e) = x_ps2_step(st.0, st.1, b);
            // C06 proper is relational: the eleventh bit returns what *whole-word decoding of the real code* returns for the
            // assembled word (whether that is the right answer is C05's business)
            #[cfg(not(kani))]
            let e = if crate::relational() && st.0 == 10 {
                let w = st.1 | ((b as u16) << 10);
                match Ps2Decoder::new().add_word(w) {
                    Ok(x) => Ok(Some(x)),
                    Err(x) => Err(x),
                }
            } else {
                e
            };
            say!(verbose, "step {}: add_bit({}) -> {:?}   expected {:?}{}", i, b as u8, r, e, if r == e { "" } else { "   <-- MISMATCH" });
            if r != e {
                ok = false;
            }
            st = st2;
        }
        i += 1;
    }
    ok
}

// ---------------------------------------------------------------- C01 / C02 / C07 (reference tables: generated reftables.rs)
#[derive(Clone, Copy, PartialEq, Eq, Debug)]
pub enum XCtx {
    Start,
    Extended,
    Release,
    ExtendedRelease,
    Extended2,
    Extended2Release,
}

pub fn x_set2_next(c: XCtx, b: u8) -> XCtx {
    match c {
        XCtx::Start => match b {
            0xE0 => XCtx::Extended,
            0xE1 => XCtx::Extended2,
            0xF0 => XCtx::Release,
            _ => XCtx::Start,
        },
        XCtx::Extended => {
            if b == 0xF0 {
                XCtx::ExtendedRelease
            } else {
                XCtx::Start
            }
        }
        XCtx::Extended2 => {
            if b == 0xF0 {
                XCtx::Extended2Release
            } else {
                XCtx::Start
            }
        }
        _ => XCtx::Start,
    }
}

pub fn x_set1_next(c: XCtx, b: u8) -> XCtx {
    match c {
        XCtx::Start => match b {
            0xE0 => XCtx::Extended,
            0xE1 => XCtx::Extended2,
            _ => XCtx::Start,
        },
        _ => XCtx::Start,
    }
}

fn x_ev(r: Option<Result<KeyCode, Error>>, st: KeyState) -> Option<Result<Option<KeyEvent>, Error>> {
    match r {
        None => None,
        Some(Ok(k)) => Some(Ok(Some(KeyEvent::new(k, st)))),
        Some(Err(e)) => Some(Err(e)),
    }
}

/// expected output of the Set 2 automaton; None = this transition is not constrained (known-finding cell or F0 00 / F0 AA)
pub fn x_set2_out(c: XCtx, b: u8) -> Option<Result<Option<KeyEvent>, Error>> {
    match c {
        XCtx::Start => {
            if b == 0xE0 || b == 0xE1 || b == 0xF0 {
                Some(Ok(None))
            } else if b == 0x00 || b == 0xAA {
                x_ev(ref_table(2, 0, b), KeyState::SingleShot)
            } else {
                x_ev(ref_table(2, 0, b), KeyState::Down)
            }
        }
        XCtx::Release => {
            if b == 0x00 || b == 0xAA {
                None
            } else {
                x_ev(ref_table(2, 0, b), KeyState::Up)
            }
        }
        XCtx::Extended => {
            if b == 0xF0 {
                Some(Ok(None))
            } else {
                x_ev(ref_table(2, 1, b), KeyState::Down)
            }
        }
        XCtx::ExtendedRelease => x_ev(ref_table(2, 1, b), KeyState::Up),
        XCtx::Extended2 => {
            if b == 0xF0 {
                Some(Ok(None))
            } else {
                x_ev(ref_table(2, 2, b), KeyState::Down)
            }
        }
        XCtx::Extended2Release => x_ev(ref_table(2, 2, b), KeyState::Up),
    }
}

pub fn x_set1_out(c: XCtx, b: u8) -> Option<Result<Option<KeyEvent>, Error>> {
    let st = if b >= 0x80 { KeyState::Up } else { KeyState::Down };
    let code = b & 0x7F;
    match c {
        XCtx::Start => {
            if b == 0xE0 || b == 0xE1 {
                Some(Ok(None))
            } else {
                x_ev(ref_table(1, 0, code), st)
            }
        }
        XCtx::Extended => x_ev(ref_table(1, 1, code), st),
        _ => x_ev(ref_table(1, 2, code), st),
    }
}

/// up to four bytes into a fresh real decoder of the given set, compared with the prefix automaton over the reference tables
pub fn scenario_stream(set: u8, bytes: [u8; 4], n: u8, verbose: bool) -> bool {
    // bit 7 of `n` selects the other public constructor, `Default::default()`
    let via_default = n & 0x80 != 0;
    let n = n & 0x7F;
    let mut d1 = if via_default { <ScancodeSet1 as Default>::default() } else { ScancodeSet1::new() };
    let mut d2 = if via_default { <ScancodeSet2 as Default>::default() } else { ScancodeSet2::new() };
    if via_default {
        say!(verbose, "decoder constructed with Default::default()");
    }
    let mut c = XCtx::Start;
    let mut ok = true;
    let mut i = 0usize;
    while i < 4 {
        if (i as u8) < n {
            let b = bytes[i];
            let e = if set == 1 { x_set1_out(c, b) } else { x_set2_out(c, b) };
            // natively a panic of the real code is caught per step: on a transition whose output the statements leave
            // unconstrained it is not a violation of *this* property (it is C08's business), elsewhere it is a mismatch
            #[cfg(not(kani))]
            let r = {
                let got = std::panic::catch_unwind(std::panic::AssertUnwindSafe(|| if set == 1 { d1.advance_state(b) } else { d2.advance_state(b) }));
                match got {
                    Ok(v) => v,
                    Err(p) => {
                        if crate::panic_only() {
                            std::panic::resume_unwind(p);
                        }
                        say!(verbose, "step {}: Set {} byte 0x{:02X} in context {:?} -> PANIC{}", i, set, b, c, if e.is_none() { "   (output unconstrained here)" } else { "   <-- MISMATCH" });
                        return ok && e.is_none();
                    }
                }
            };
            #[cfg(kani)]
            let r = if set == 1 { d1.advance_state(b) } else { d2.advance_state(b) };
            match e {
                Some(ref ev) => {
                    say!(verbose, "step {}: Set {} byte 0x{:02X} in context {:?} -> {:?}   expected {:?}{}", i, set, b, c, r, ev, if &r == ev { "" } else { "   <-- MISMATCH" });
                    if &r != ev {
                        ok = false;
                    }
                }
                None => {
                    // unconstrained output, but 'no event yet' must still agree (it never is, here)
                    say!(verbose, "step {}: Set {} byte 0x{:02X} in context {:?} -> {:?}   (output unconstrained)", i, set, b, c, r);
                    if r == Ok(None) {
                        ok = false;
                    }
                }
            }
            c = if set == 1 { x_set1_next(c, b) } else { x_set2_next(c, b) };
        }
        i += 1;
    }
    ok
}

/// C07: after the last of `n` (<= 4) bytes of arbitrary garbage produced an event or an error, three probe bytes decode
/// exactly as on a fresh decoder; and 'no event yet' is never returned for more than two (Set 2) / one (Set 1) consecutive bytes
pub fn scenario_resync(set: u8, bytes: [u8; 4], n: u8, probe: [u8; 3], verbose: bool) -> bool {
    let mut d1 = ScancodeSet1::new();
    let mut d2 = ScancodeSet2::new();
    let mut f1 = ScancodeSet1::new();
    let mut f2 = ScancodeSet2::new();
    let mut ok = true;
    let mut nones: u8 = 0;
    let mut last_none = true;
    let limit: u8 = if set == 1 { 1 } else { 2 };
    let mut i = 0usize;
    while i < 4 {
        if (i as u8) < n {
            let r = if set == 1 { d1.advance_state(bytes[i]) } else { d2.advance_state(bytes[i]) };
            last_none = r == Ok(None);
            if last_none {
                nones += 1;
            } else {
                nones = 0;
            }
            say!(verbose, "step {}: Set {} byte 0x{:02X} -> {:?}", i, set, bytes[i], r);
            if nones > limit {
                say!(verbose, "         <-- 'no event yet' for {} consecutive bytes (limit {})", nones, limit);
                ok = false;
            }
        }
        i += 1;
    }
    if n > 0 && !last_none {
        let mut j = 0usize;
        while j < 3 {
            let a = if set == 1 { d1.advance_state(probe[j]) } else { d2.advance_state(probe[j]) };
            let b = if set == 1 { f1.advance_state(probe[j]) } else { f2.advance_state(probe[j]) };
            say!(verbose, "probe {}: byte 0x{:02X} -> {:?}   fresh decoder {:?}{}", j, probe[j], a, b, if a == b { "" } else { "   <-- MISMATCH (history leaked past an event/error)" });
            if a != b {
                ok = false;
            }
            j += 1;
        }
    }
    ok
}

/// C19: `[prefix] c` is a press of K  iff  its break form is a release of the same K (Set 2: `[prefix] F0 c`; Set 1: `[prefix] c|0x80`)
pub fn scenario_pairing(set: u8, prefix: u8, code: u8, verbose: bool) -> bool {
    scenario_pairing_after(set, 0xE0, prefix, code, verbose)
}

/// the same after one earlier complete byte `hist` (skipped when it is a prefix byte): pairing must not depend on history
pub fn scenario_pairing_after(set: u8, hist: u8, prefix: u8, code: u8, verbose: bool) -> bool {
    let mut m1 = ScancodeSet1::new();
    let mut m2 = ScancodeSet2::new();
    let mut b1 = ScancodeSet1::new();
    let mut b2 = ScancodeSet2::new();
    if hist != 0xE0 && hist != 0xE1 && hist != 0xF0 {
        if set == 1 {
            let _ = m1.advance_state(hist);
            let _ = b1.advance_state(hist);
        } else {
            let _ = m2.advance_state(hist);
            let _ = b2.advance_state(hist);
        }
        say!(verbose, "history: byte 0x{:02X} fed to both decoders first", hist);
    }
    if prefix == 0xE0 || prefix == 0xE1 {
        if set == 1 {
            let _ = m1.advance_state(prefix);
            let _ = b1.advance_state(prefix);
        } else {
            let _ = m2.advance_state(prefix);
            let _ = b2.advance_state(prefix);
        }
    }
    if set == 1 {
        if code >= 0x80 {
            return true;
        }
    } else if code == 0xE0 || code == 0xE1 || code == 0xF0 || code == 0x00 || code == 0xAA {
        return true;
    }
    let mk = if set == 1 { m1.advance_state(code) } else { m2.advance_state(code) };
    let br = if set == 1 {
        b1.advance_state(code | 0x80)
    } else {
        let _ = b2.advance_state(0xF0);
        b2.advance_state(code)
    };
    let down = match &mk {
        Ok(Some(e)) if e.state == KeyState::Down => Some(e.code),
        _ => None,
    };
    let up = match &br {
        Ok(Some(e)) if e.state == KeyState::Up => Some(e.code),
        _ => None,
    };
    say!(verbose, "Set {} prefix 0x{:02X} code 0x{:02X}: make -> {:?}, break -> {:?}{}", set, prefix, code, mk, br, if down == up { "" } else { "   <-- MISMATCH (press and release do not pair)" });
    down == up
}

/// key that `[prefix] code` is reported to press after the one-byte history `hist` (None: no press)
pub fn x_press_after(set: u8, hist: u8, prefix: u8, code: u8) -> Option<KeyCode> {
    let mut d1 = ScancodeSet1::new();
    let mut d2 = ScancodeSet2::new();
    if hist != 0xE0 && hist != 0xE1 && hist != 0xF0 {
        let _ = if set == 1 { d1.advance_state(hist) } else { d2.advance_state(hist) };
    }
    if prefix == 0xE0 || prefix == 0xE1 {
        let _ = if set == 1 { d1.advance_state(prefix) } else { d2.advance_state(prefix) };
    }
    let r = if set == 1 { d1.advance_state(code) } else { d2.advance_state(code) };
    match r {
        Ok(Some(e)) if e.state == KeyState::Down => Some(e.code),
        _ => None,
    }
}

/// C19: two distinct sequences must not denote the same key, whatever complete byte came before
pub fn scenario_injective(set: u8, hist: u8, p1: u8, c1: u8, p2: u8, c2: u8, verbose: bool) -> bool {
    if (p1, c1) == (p2, c2) {
        return true;
    }
    let a = x_press_after(set, hist, p1, c1);
    let b = x_press_after(set, hist, p2, c2);
    say!(verbose, "Set {} after byte 0x{:02X}: [{:02X}] {:02X} presses {:?}; [{:02X}] {:02X} presses {:?}{}", set, hist, p1, c1, a, p2, c2, b,
         if a.is_some() && a == b { "   <-- MISMATCH (two distinct sequences denote the same key)" } else { "" });
    !(a.is_some() && a == b)
}

// ---------------------------------------------------------------- C04 / C14
pub fn x_initial_mods() -> Modifiers {
    Modifiers { lshift: false, rshift: false, lctrl: false, rctrl: false, numlock: true, capslock: false, lalt: false, ralt: false, rctrl2: false }
}

pub fn x_mods_step(m: &Modifiers, code: KeyCode, state: KeyState) -> Modifiers {
    let down = state == KeyState::Down;
    let up = state == KeyState::Up;
    let du = down || up;
    Modifiers {
        lshift: if code == KeyCode::LShift && du { down } else { m.lshift },
        rshift: if code == KeyCode::RShift && du { down } else { m.rshift },
        lctrl: if code == KeyCode::LControl && du { down } else { m.lctrl },
        rctrl: if code == KeyCode::RControl && du { down } else { m.rctrl },
        lalt: if code == KeyCode::LAlt && du { down } else { m.lalt },
        ralt: if code == KeyCode::RAltGr && du { down } else { m.ralt },
        rctrl2: if code == KeyCode::RControl2 && du { down } else { m.rctrl2 },
        capslock: if code == KeyCode::CapsLock && down { !m.capslock } else { m.capslock },
        numlock: if code == KeyCode::NumpadLock && down && !m.rctrl2 { !m.numlock } else { m.numlock },
    }
}

pub fn x_is_modifier_key(k: KeyCode) -> bool {
    matches!(
        k,
        KeyCode::LShift | KeyCode::RShift | KeyCode::LControl | KeyCode::RControl | KeyCode::LAlt | KeyCode::RAltGr | KeyCode::RControl2 | KeyCode::CapsLock
            | KeyCode::NumpadLock
    )
}

/// A layout that returns an encoding of exactly the (key, modifiers, mode) triple it was consulted with.
pub struct RecordingLayout(pub u8);

pub fn x_encode(k: KeyCode, m: &Modifiers, h: HandleControl) -> DecodedKey {
    x_encode_tag(k, m, h, 0)
}

pub fn x_encode_tag(k: KeyCode, m: &Modifiers, h: HandleControl, tag: u8) -> DecodedKey {
    let mb = (m.lshift as u32)
        | (m.rshift as u32) << 1
        | (m.lctrl as u32) << 2
        | (m.rctrl as u32) << 3
        | (m.numlock as u32) << 4
        | (m.capslock as u32) << 5
        | (m.lalt as u32) << 6
        | (m.ralt as u32) << 7
        | (m.rctrl2 as u32) << 8;
    let hb = if h == HandleControl::MapLettersToUnicode { 1u32 } else { 0u32 };
    if tag & 2 != 0 {
        // the *value* flavour: answers spread over control characters, printable ASCII, Latin-1 and raw keys, so that a
        // decoder which post-processes the layout's answer by its value (folds case, maps to control codes, filters a
        // range ...) is seen; still a pure function of the triple, and the two tags answer differently
        let idx = (k as u32 * 31 + mb * 17 + hb * 7 + (tag as u32 & 1) * 101) % 240;
        return if idx % 11 == 10 { DecodedKey::RawKey(x_keycode((idx % 124) as u8)) } else { DecodedKey::Unicode(char::from_u32(idx).unwrap_or('?')) };
    }
    let v = 0x10000 + ((tag as u32 & 1) << 17) + ((k as u32) << 10) + (hb << 9) + mb;
    match char::from_u32(v) {
        Some(c) => DecodedKey::Unicode(c),
        None => DecodedKey::RawKey(k),
    }
}

impl KeyboardLayout for RecordingLayout {
    fn map_keycode(&self, keycode: KeyCode, modifiers: &Modifiers, handle_ctrl: HandleControl) -> DecodedKey {
        x_encode_tag(keycode, modifiers, handle_ctrl, self.0)
    }
}

pub fn x_decode_out(m: &Modifiers, h: HandleControl, code: KeyCode, state: KeyState, tag: u8) -> Option<DecodedKey> {
    if state != KeyState::Down {
        None
    } else if code == KeyCode::NumpadLock && m.rctrl2 {
        Some(DecodedKey::RawKey(KeyCode::PauseBreak))
    } else if x_is_modifier_key(code) {
        Some(DecodedKey::RawKey(code))
    } else {
        Some(x_encode_tag(code, m, h, tag))
    }
}

pub fn x_state(s: u8) -> KeyState {
    match s % 3 {
        0 => KeyState::Up,
        1 => KeyState::Down,
        _ => KeyState::SingleShot,
    }
}

pub fn x_mode(b: bool) -> HandleControl {
    if b {
        HandleControl::MapLettersToUnicode
    } else {
        HandleControl::Ignore
    }
}

/// up to three key events (key index into KeyCode, state 0..3) through a real Keyboard with the recording layout; before
/// event i the Ctrl mode is set to mode bit i. Decoded keys and reported modifiers are compared with the specification.
pub fn scenario_events(keys: [u8; 3], states: [u8; 3], modes: u8, n: u8, verbose: bool) -> bool {
    scenario_events_aspect(keys, states, modes, n, 3, verbose)
}

/// `aspect`: bit 0 = compare the reported modifiers (C04), bit 1 = compare the decoded keys and the mode (C14), bit 2 = use
/// the value flavour of the recording layout (answers in the control / ASCII / Latin-1 / raw-key ranges).
/// Bits 3..5 of `modes` schedule a layout change (to the recording layout with tag 1 / 0) before event i.
pub fn scenario_events_aspect(keys: [u8; 3], states: [u8; 3], modes: u8, n: u8, aspect: u8, verbose: bool) -> bool {
    // modifiers are observable only through Keyboard::get_modifiers; layout changes only through EventDecoder::change_layout:
    // the same events go through both objects
    let fl: u8 = if aspect & 4 != 0 { 2 } else { 0 };
    let mut kb = Keyboard::new(ScancodeSet2::new(), RecordingLayout(fl), HandleControl::Ignore);
    let mut ed = EventDecoder::new(RecordingLayout(fl), HandleControl::Ignore);
    let mut m = x_initial_mods();
    let mut ok = true;
    let mut tag = 0u8;
    let mut cur = HandleControl::Ignore;
    let mut i = 0usize;
    while i < 3 {
        if (i as u8) < n {
            let h = x_mode((modes >> i) & 1 != 0);
            if h != cur {
                // only a real change calls the setter, so that schedules without any setter call are covered too
                kb.set_ctrl_handling(h);
                ed.set_ctrl_handling(h);
                cur = h;
                say!(verbose, "step {}: set_ctrl_handling({:?})", i, h);
            }
            if (modes >> (i + 3)) & 1 != 0 {
                tag = 1 - tag;
                ed.change_layout(RecordingLayout(fl + tag));
                say!(verbose, "step {}: change_layout(recording layout #{})", i, fl + tag);
            }
            if aspect & 2 != 0 && (kb.get_ctrl_handling() != h || ed.get_ctrl_handling() != h) {
                say!(verbose, "step {}: get_ctrl_handling() does not return the mode just set", i);
                ok = false;
            }
            let k = x_keycode(keys[i]);
            let s = x_state(states[i]);
            let r = kb.process_keyevent(KeyEvent::new(k, s));
            let r2 = ed.process_keyevent(KeyEvent::new(k, s));
            let e = x_decode_out(&m, h, k, s, fl);
            let e2 = x_decode_out(&m, h, k, s, fl + tag);
            let m2 = x_mods_step(&m, k, s);
            let got = kb.get_modifiers().clone();
            say!(verbose, "step {}: mode {:?}, event {:?}/{:?} -> {:?}   expected {:?}{}", i, h, k, s, r, e, if r == e { "" } else { "   <-- MISMATCH" });
            say!(verbose, "         EventDecoder with layout #{} -> {:?}   expected {:?}{}", tag, r2, e2, if r2 == e2 { "" } else { "   <-- MISMATCH" });
            say!(verbose, "         modifiers now {:?}\n         expected      {:?}{}", got, m2, if got == m2 { "" } else { "   <-- MISMATCH" });
            if aspect & 2 != 0 && (r != e || r2 != e2) {
                ok = false;
            }
            if aspect & 1 != 0 && got != m2 {
                ok = false;
            }
            m = m2;
        }
        i += 1;
    }
    ok
}

/// the event scenarios with one of the crate's own layouts (through the wrapper, by value) instead of the recording layout:
/// a decoder may consult the layout for more than `map_keycode` (a new trait method that only some layouts override)
#[cfg(not(kani))]
pub fn scenario_events_real(keys: [u8; 3], states: [u8; 3], modes: u8, layout: u8, aspect: u8, verbose: bool) -> bool {
    let mut kb = Keyboard::new(ScancodeSet2::new(), x_anylayout(layout), HandleControl::Ignore);
    let spec_layout = x_anylayout(layout);
    let mut m = x_initial_mods();
    let mut cur = HandleControl::Ignore;
    let mut ok = true;
    for i in 0..3usize {
        let h = x_mode((modes >> i) & 1 != 0);
        if h != cur {
            kb.set_ctrl_handling(h);
            cur = h;
            say!(verbose, "step {}: set_ctrl_handling({:?})", i, h);
        }
        let k = x_keycode(keys[i]);
        let s = x_state(states[i]);
        let r = kb.process_keyevent(KeyEvent::new(k, s));
        let e = if s != KeyState::Down {
            None
        } else if k == KeyCode::NumpadLock && m.rctrl2 {
            Some(DecodedKey::RawKey(KeyCode::PauseBreak))
        } else if x_is_modifier_key(k) {
            Some(DecodedKey::RawKey(k))
        } else {
            Some(spec_layout.map_keycode(k, &m, h))
        };
        let m2 = x_mods_step(&m, k, s);
        let got = kb.get_modifiers().clone();
        say!(verbose, "step {}: layout variant #{}, mode {:?}, event {:?}/{:?} -> {:?}   expected {:?}{}", i, layout, h, k, s, r, e, if r == e { "" } else { "   <-- MISMATCH" });
        say!(verbose, "         modifiers now {:?}\n         expected      {:?}{}", got, m2, if got == m2 { "" } else { "   <-- MISMATCH" });
        if aspect & 2 != 0 && r != e {
            ok = false;
        }
        if aspect & 1 != 0 && got != m2 {
            ok = false;
        }
        m = m2;
    }
    ok
}

// ---------------------------------------------------------------- C17 (switching)
/// Two real decoders over the runtime-selectable wrapper see the same three key events: A starts with variant `from` and is
/// switched to variant `to` before event `switch_at`, B held `to` from the start. From the switch on they must agree:
/// switching the variant switches to that layout and no other, whatever was typed before.
#[cfg(not(kani))]
pub fn scenario_switching(keys: [u8; 3], states: [u8; 3], switch_at: u8, from: u8, to: u8, mode: bool, verbose: bool) -> bool {
    // bit 7 of `from`: the wrapper is used by reference (`EventDecoder<&AnyLayout>`) instead of by value
    if from & 0x80 != 0 {
        return scenario_switching_ref(keys, states, switch_at, from & 0x7F, to, mode, verbose);
    }
    let h = x_mode(mode);
    let mut a = EventDecoder::new(x_anylayout(from), h);
    let mut b = EventDecoder::new(x_anylayout(to), h);
    let mut ok = true;
    for i in 0..3usize {
        if i as u8 == switch_at {
            a.change_layout(x_anylayout(to));
            say!(verbose, "step {}: A.change_layout(variant #{})", i, to);
        }
        let k = x_keycode(keys[i]);
        let st = x_state(states[i]);
        let ra = a.process_keyevent(KeyEvent::new(k, st));
        let rb = b.process_keyevent(KeyEvent::new(k, st));
        let must = i as u8 >= switch_at;
        say!(verbose, "step {}: event {:?}/{:?}: A (variant #{} -> #{}) -> {:?}   B (variant #{} all along) -> {:?}{}", i, k, st, from, to, ra, to, rb,
            if must && ra != rb { "   <-- MISMATCH" } else { "" });
        if must && ra != rb {
            ok = false;
        }
    }
    ok
}

#[cfg(not(kani))]
fn scenario_switching_ref(keys: [u8; 3], states: [u8; 3], switch_at: u8, from: u8, to: u8, mode: bool, verbose: bool) -> bool {
    let h = x_mode(mode);
    let lf = x_anylayout(from);
    let lt = x_anylayout(to);
    let mut a = EventDecoder::new(&lf, h);
    // B holds the target variant *by value*: the two wrapper forms must be interchangeable as well
    let mut b = EventDecoder::new(x_anylayout(to), h);
    let mut ok = true;
    for i in 0..3usize {
        if i as u8 == switch_at {
            a.change_layout(&lt);
            say!(verbose, "step {}: A.change_layout(&variant #{})", i, to);
        }
        let k = x_keycode(keys[i]);
        let st = x_state(states[i]);
        let ra = a.process_keyevent(KeyEvent::new(k, st));
        let rb = b.process_keyevent(KeyEvent::new(k, st));
        let must = i as u8 >= switch_at;
        say!(verbose, "step {}: event {:?}/{:?}: A (&variant #{} -> #{}) -> {:?}   B (variant #{} by value, all along) -> {:?}{}", i, k, st, from, to, ra, to, rb,
            if must && ra != rb { "   <-- MISMATCH" } else { "" });
        if must && ra != rb {
            ok = false;
        }
    }
    ok
}

#[cfg(not(kani))]
pub fn x_anylayout(i: u8) -> layouts::AnyLayout {
    use layouts::*;
    match i % 10 {
        0 => AnyLayout::Us104Key(Us104Key),
        1 => AnyLayout::Uk105Key(Uk105Key),
        2 => AnyLayout::Azerty(Azerty),
        3 => AnyLayout::De105Key(De105Key),
        4 => AnyLayout::Dvorak104Key(Dvorak104Key),
        5 => AnyLayout::Colemak(Colemak),
        6 => AnyLayout::Jis109Key(Jis109Key),
        7 => AnyLayout::No105Key(No105Key),
        8 => AnyLayout::FiSe105Key(FiSe105Key),
        _ => AnyLayout::DVP104Key(DVP104Key),
    }
}

// ---------------------------------------------------------------- C18
/// A Keyboard and three separately owned real stages are brought into the same state (`pre_bits` bits of `bits`, then
/// `pre_bytes` bytes) and then given one operation; results and the follow-up behaviour must agree.
/// op: 0 add_bit(arg&1), 1 add_word(arg), 2 add_byte(arg), 3 clear, 4 process_keyevent(key arg, state arg>>8), 5 set_ctrl_handling
pub fn scenario_keyboard(set: u8, bits: u16, pre_bits: u8, pre: [u8; 2], pre_bytes: u8, op: u8, arg: u16, probe: u8, verbose: bool) -> bool {
    if set == 1 {
        x_keyboard_run(Keyboard::new(ScancodeSet1::new(), RecordingLayout(0), HandleControl::Ignore), ScancodeSet1::new(), bits, pre_bits, pre, pre_bytes, op, arg, probe, verbose)
    } else {
        x_keyboard_run(Keyboard::new(ScancodeSet2::new(), RecordingLayout(0), HandleControl::Ignore), ScancodeSet2::new(), bits, pre_bits, pre, pre_bytes, op, arg, probe, verbose)
    }
}

fn x_lift<S: ScancodeSet>(s: &mut S, r: Result<Option<u8>, Error>) -> Result<Option<KeyEvent>, Error> {
    match r {
        Ok(Some(b)) => s.advance_state(b),
        Ok(None) => Ok(None),
        Err(e) => Err(e),
    }
}

fn x_keyboard_run<S: ScancodeSet>(mut kb: Keyboard<RecordingLayout, S>, mut s: S, bits: u16, pre_bits: u8, pre: [u8; 2], pre_bytes: u8, op: u8, arg: u16, probe: u8, verbose: bool) -> bool {
    let mut p = Ps2Decoder::new();
    let mut e = EventDecoder::new(RecordingLayout(0), HandleControl::Ignore);
    let mut ok = true;
    // bring the scancode stage into a prefix context
    let mut i = 0usize;
    while i < 2 {
        if (i as u8) < pre_bytes {
            let a = kb.add_byte(pre[i]);
            let b = s.advance_state(pre[i]);
            say!(verbose, "setup: add_byte(0x{:02X}) -> {:?} / separate stage {:?}", pre[i], a, b);
            if a != b {
                ok = false;
            }
        }
        i += 1;
    }
    // every momentary modifier held and both locks toggled, so that a disturbed flag of the event stage shows in the probe
    let held = [KeyCode::NumpadLock, KeyCode::CapsLock, KeyCode::LShift, KeyCode::RShift, KeyCode::LControl, KeyCode::RControl, KeyCode::LAlt, KeyCode::RAltGr, KeyCode::RControl2];
    let mut hi = 0usize;
    while hi < 9 {
        let a = kb.process_keyevent(KeyEvent::new(held[hi], KeyState::Down));
        let b = e.process_keyevent(KeyEvent::new(held[hi], KeyState::Down));
        if a != b {
            ok = false;
        }
        hi += 1;
    }
    // a partial frame
    let mut j: u8 = 0;
    while j < 10 {
        if j < pre_bits {
            let bit = (bits >> j) & 1 != 0;
            let a = kb.add_bit(bit);
            let b = x_lift(&mut s, p.add_bit(bit));
            if a != b {
                say!(verbose, "setup: add_bit({}) -> {:?} / separate stages {:?}   <-- MISMATCH", bit as u8, a, b);
                ok = false;
            }
        }
        j += 1;
    }
    say!(verbose, "state: {} bits pending, {} prefix byte(s) fed, all modifiers held, locks toggled", pre_bits, pre_bytes);
    // the operation under test
    match op % 6 {
        0 => {
            let bit = arg & 1 != 0;
            let a = kb.add_bit(bit);
            let b = x_lift(&mut s, p.add_bit(bit));
            say!(verbose, "op: add_bit({}) -> {:?}   three stages: {:?}{}", bit as u8, a, b, if a == b { "" } else { "   <-- MISMATCH" });
            if a != b {
                ok = false;
            }
        }
        1 => {
            let w = arg; // the whole u16 domain: bits 11..15 are ignored by the frame stage, so the Keyboard must ignore them too
            let a = kb.add_word(w);
            let b = match p.add_word(w) {
                Ok(byte) => s.advance_state(byte),
                Err(x) => Err(x),
            };
            say!(verbose, "op: add_word(0x{:04X}) -> {:?}   three stages: {:?}{}", w, a, b, if a == b { "" } else { "   <-- MISMATCH" });
            if a != b {
                ok = false;
            }
        }
        2 => {
            let a = kb.add_byte(arg as u8);
            let b = s.advance_state(arg as u8);
            say!(verbose, "op: add_byte(0x{:02X}) -> {:?}   three stages: {:?}{}", arg as u8, a, b, if a == b { "" } else { "   <-- MISMATCH" });
            if a != b {
                ok = false;
            }
        }
        3 => {
            kb.clear();
            p.clear();
            say!(verbose, "op: clear()");
        }
        4 => {
            let k = x_keycode(arg as u8);
            let st = x_state((arg >> 8) as u8);
            let a = kb.process_keyevent(KeyEvent::new(k, st));
            let b = e.process_keyevent(KeyEvent::new(k, st));
            say!(verbose, "op: process_keyevent({:?}/{:?}) -> {:?}   three stages: {:?}{}", k, st, a, b, if a == b { "" } else { "   <-- MISMATCH" });
            if a != b {
                ok = false;
            }
        }
        _ => {
            let h = x_mode(arg & 1 != 0);
            kb.set_ctrl_handling(h);
            e.set_ctrl_handling(h);
            say!(verbose, "op: set_ctrl_handling({:?})", h);
            if kb.get_ctrl_handling() != e.get_ctrl_handling() {
                ok = false;
            }
        }
    }
    // probes: every stage must still behave like its separate twin
    let a = kb.process_keyevent(KeyEvent::new(KeyCode::A, KeyState::Down));
    let b = e.process_keyevent(KeyEvent::new(KeyCode::A, KeyState::Down));
    say!(verbose, "probe: key A -> {:?}   separate event stage {:?}{}", a, b, if a == b { "" } else { "   <-- MISMATCH (event stage disturbed)" });
    if a != b {
        ok = false;
    }
    let a = kb.process_keyevent(KeyEvent::new(KeyCode::NumpadLock, KeyState::Down));
    let b = e.process_keyevent(KeyEvent::new(KeyCode::NumpadLock, KeyState::Down));
    if a != b {
        say!(verbose, "probe: NumpadLock -> {:?}   separate event stage {:?}   <-- MISMATCH (event stage disturbed)", a, b);
        ok = false;
    }
    let a = kb.add_byte(probe);
    let b = s.advance_state(probe);
    say!(verbose, "probe: add_byte(0x{:02X}) -> {:?}   separate scancode stage {:?}{}", probe, a, b, if a == b { "" } else { "   <-- MISMATCH (scancode stage disturbed)" });
    if a != b {
        ok = false;
    }
    // frame stage: complete the pending frame with ones, then shift in one whole valid frame (0x1C, parity 0)
    let frame: u16 = (0x1C << 1) | (0 << 9) | (1 << 10);
    let mut j: u8 = 0;
    while j < 22 {
        let bit = if j < 11 { true } else { (frame >> (j - 11)) & 1 != 0 };
        let a = kb.add_bit(bit);
        let b = x_lift(&mut s, p.add_bit(bit));
        if a != b {
            say!(verbose, "probe: add_bit({}) #{} -> {:?}   separate stages {:?}   <-- MISMATCH (frame stage disturbed)", bit as u8, j, a, b);
            ok = false;
        }
        j += 1;
    }
    ok
}

// ---------------------------------------------------------------- C08: totality of the layouts (Kani's own panic / overflow checks do the work)
pub fn scenario_layout_total(layout: u8, form: u8, key: u8, mods: u16, mode: bool, verbose: bool) -> bool {
    let m = Modifiers {
        lshift: mods & 1 != 0,
        rshift: mods & 2 != 0,
        lctrl: mods & 4 != 0,
        rctrl: mods & 8 != 0,
        numlock: mods & 16 != 0,
        capslock: mods & 32 != 0,
        lalt: mods & 64 != 0,
        ralt: mods & 128 != 0,
        rctrl2: mods & 256 != 0,
    };
    let k = x_keycode(key);
    let r = x_layout_call(layout, form, k, &m, x_mode(mode));
    say!(verbose, "layout #{} (form {}) key {:?} mods {:?} mode {:?} -> {:?}", layout, form, k, m, x_mode(mode), r);
    true
}

/// Panic search over key-event histories deeper than the relational scenarios: eight events on a fresh real EventDecoder
/// (recording layout), nothing compared - the scenario "fails" only by panicking. Used by the Kani harness `cex::events_deep`
/// (symbolic events, bounded: <= 8) and by the native replay of the values it finds.
pub fn scenario_events_deep(mode: bool, ks: [u8; 8], ss: [u8; 8], verbose: bool) -> bool {
    let h = if mode { HandleControl::MapLettersToUnicode } else { HandleControl::Ignore };
    let mut d = EventDecoder::new(RecordingLayout(0), h);
    say!(verbose, "fresh EventDecoder, mode {:?}", h);
    let mut i = 0;
    while i < 8 {
        let st = match ss[i] % 3 {
            0 => KeyState::Up,
            1 => KeyState::Down,
            _ => KeyState::SingleShot,
        };
        let k = x_keycode(ks[i] % X_NKEYS);
        say!(verbose, "process_keyevent({:?}, {:?}) ...", k, st);
        let r = d.process_keyevent(KeyEvent::new(k, st));
        say!(verbose, "   -> {:?}", r);
        i += 1;
    }
    true
}
