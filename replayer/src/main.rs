//! Native replayer: runs concrete inputs against the real pc-keyboard crate (path dependency on /repo) and prints
//! what it observes. It is used (a) to replay counterexamples, (b) to produce *untrusted hints* (inverse tables,
//! witnesses for existential lemmas) that Verus then checks. Built with overflow checks and debug assertions on.
use pc_keyboard::layouts::*;
use pc_keyboard::*;

mod generated;
use generated::*;
mod cellcheck;
mod sweep;
include!("xgen.rs");
include!("xspec.rs");

pub fn fmt_decoded(d: DecodedKey) -> String {
    match d {
        DecodedKey::Unicode(c) => format!("U+{:04X}", c as u32),
        DecodedKey::RawKey(k) => format!("Raw:{:?}", k),
    }
}

fn fmt_state(s: KeyState) -> &'static str {
    match s {
        KeyState::Up => "Up",
        KeyState::Down => "Down",
        KeyState::SingleShot => "SingleShot",
    }
}

fn fmt_sc(r: Result<Option<KeyEvent>, Error>) -> String {
    match r {
        Ok(None) => "None".to_string(),
        Ok(Some(e)) => format!("{:?}/{}", e.code, fmt_state(e.state)),
        Err(e) => format!("Err:{:?}", e),
    }
}

fn mods_from_bits(s: &str) -> Modifiers {
    // order: lshift rshift lctrl rctrl numlock capslock lalt ralt rctrl2
    let b: Vec<bool> = s.chars().map(|c| c == '1').collect();
    assert!(b.len() == 9, "modifier string must have 9 characters");
    Modifiers { lshift: b[0], rshift: b[1], lctrl: b[2], rctrl: b[3], numlock: b[4], capslock: b[5], lalt: b[6], ralt: b[7], rctrl2: b[8] }
}

pub fn mods_to_bits(m: &Modifiers) -> String {
    [m.lshift, m.rshift, m.lctrl, m.rctrl, m.numlock, m.capslock, m.lalt, m.ralt, m.rctrl2].iter().map(|b| if *b { '1' } else { '0' }).collect()
}

fn mode_from(s: &str) -> HandleControl {
    match s {
        "Map" | "MapLettersToUnicode" => HandleControl::MapLettersToUnicode,
        _ => HandleControl::Ignore,
    }
}

pub fn key_from(s: &str) -> KeyCode {
    for (n, k) in KEYCODES {
        if *n == s {
            return *k;
        }
    }
    panic!("unknown key {}", s);
}

fn state_from(s: &str) -> KeyState {
    match s {
        "Up" => KeyState::Up,
        "Down" => KeyState::Down,
        _ => KeyState::SingleShot,
    }
}

fn feed<S: ScancodeSet>(d: &mut S, bytes: &[u8]) -> Vec<String> {
    bytes.iter().map(|b| fmt_sc(d.advance_state(*b))).collect()
}

fn hexbytes(args: &[String]) -> Vec<u8> {
    args.iter().map(|a| u8::from_str_radix(a.trim_start_matches("0x"), 16).expect("hex byte")).collect()
}

/// C08 asks only whether anything panics: with SWEEP_PANIC_ONLY=1 a result that merely differs from the executable
/// specification is not a hit (that is the other properties' business) and the sweeps keep going past it
pub static PANIC_ONLY: std::sync::atomic::AtomicBool = std::sync::atomic::AtomicBool::new(false);
pub fn panic_only() -> bool {
    PANIC_ONLY.load(std::sync::atomic::Ordering::Relaxed)
}

/// C06 compares the bit-serial path with the real whole-word path, not with the frame specification (SWEEP_RELATIONAL=1)
pub static RELATIONAL: std::sync::atomic::AtomicBool = std::sync::atomic::AtomicBool::new(false);
pub fn relational() -> bool {
    RELATIONAL.load(std::sync::atomic::Ordering::Relaxed)
}

/// relational properties (C06, C17, C18: "A behaves exactly like B") are not about whether anything panics - a panic of the
/// shared real code takes both sides down alike and is C08's hit: with SWEEP_PANIC_NOT_MINE=1 a panic ends that scenario
/// without counting
pub static PANIC_NOT_MINE: std::sync::atomic::AtomicBool = std::sync::atomic::AtomicBool::new(false);
pub fn panic_not_mine() -> bool {
    PANIC_NOT_MINE.load(std::sync::atomic::Ordering::Relaxed)
}

fn main() {
    if std::env::var("SWEEP_PANIC_NOT_MINE").map(|v| v == "1").unwrap_or(false) {
        PANIC_NOT_MINE.store(true, std::sync::atomic::Ordering::Relaxed);
    }
    if std::env::var("SWEEP_RELATIONAL").map(|v| v == "1").unwrap_or(false) {
        RELATIONAL.store(true, std::sync::atomic::Ordering::Relaxed);
    }
    if std::env::var("SWEEP_PANIC_ONLY").map(|v| v == "1").unwrap_or(false) {
        PANIC_ONLY.store(true, std::sync::atomic::Ordering::Relaxed);
    }
    let args: Vec<String> = std::env::args().collect();
    let cmd = args.get(1).map(|s| s.as_str()).unwrap_or("");
    match cmd {
        // ---- hints
        "tables" => {
            // set ctx code -> result, through the public API only
            println!("{{");
            for set in [1u8, 2u8] {
                for (ci, (cname, prefix)) in [("plain", vec![]), ("e0", vec![0xE0u8]), ("e1", vec![0xE1u8])].iter().enumerate() {
                    let mut cells = Vec::new();
                    for code in 0u16..=255 {
                        let code = code as u8;
                        let mut seq = prefix.clone();
                        seq.push(code);
                        let out = if set == 1 {
                            feed(&mut ScancodeSet1::new(), &seq)
                        } else {
                            feed(&mut ScancodeSet2::new(), &seq)
                        };
                        cells.push(format!("\"{}\"", out.last().unwrap()));
                    }
                    let last = set == 2 && ci == 2;
                    println!("\"set{}/{}\": [{}]{}", set, cname, cells.join(","), if last { "" } else { "," });
                }
            }
            println!("}}");
        }
        "preds" => {
            // the five Modifiers predicates under all 512 modifier sets (cellcheck::all_mods order), as JSON strings of 0/1
            let ms = cellcheck::all_mods();
            let row = |f: &dyn Fn(&Modifiers) -> bool| ms.iter().map(|m| if f(m) { '1' } else { '0' }).collect::<String>();
            println!("{{");
            println!("\"is_shifted\": \"{}\",", row(&|m| m.is_shifted()));
            println!("\"is_ctrl\": \"{}\",", row(&|m| m.is_ctrl()));
            println!("\"is_alt\": \"{}\",", row(&|m| m.is_alt()));
            println!("\"is_altgr\": \"{}\",", row(&|m| m.is_altgr()));
            println!("\"is_caps\": \"{}\"", row(&|m| m.is_caps()));
            println!("}}");
        }
        "layout-table" => {
            // layout-table <layout>: for every key the decoded value under all 512 modifier sets x 2 modes (mode-major), as JSON
            let l = &args[2];
            println!("{{");
            for (ki, (n, k)) in KEYCODES.iter().enumerate() {
                let mut v = Vec::with_capacity(1024);
                for h in [HandleControl::Ignore, HandleControl::MapLettersToUnicode] {
                    for m in cellcheck::all_mods() {
                        v.push(format!("\"{}\"", fmt_decoded(layout_map(l, *k, &m, h).expect("unknown layout"))));
                    }
                }
                println!("\"{}\": [{}]{}", n, v.join(","), if ki + 1 == KEYCODES.len() { "" } else { "," });
            }
            println!("}}");
        }
        "layouts" => {
            // layout key -> [base, shift, altgr] at the three plain levels, Ctrl mapping off
            let m0 = Modifiers { lshift: false, rshift: false, lctrl: false, rctrl: false, numlock: true, capslock: false, lalt: false, ralt: false, rctrl2: false };
            let levels = [m0.clone(), Modifiers { lshift: true, ..m0.clone() }, Modifiers { ralt: true, ..m0.clone() }];
            println!("{{");
            for (li, l) in LAYOUTS.iter().enumerate() {
                println!("\"{}\": {{", l);
                for (ki, (n, k)) in KEYCODES.iter().enumerate() {
                    let v: Vec<String> = levels.iter().map(|m| format!("\"{}\"", fmt_decoded(layout_map(l, *k, m, HandleControl::Ignore).unwrap()))).collect();
                    println!("\"{}\": [{}]{}", n, v.join(","), if ki + 1 == KEYCODES.len() { "" } else { "," });
                }
                println!("}}{}", if li + 1 == LAYOUTS.len() { "" } else { "," });
            }
            println!("}}");
        }
        // ---- replays
        "layout" => {
            // layout <name> <key> <modbits> <mode>
            let d = layout_map(&args[2], key_from(&args[3]), &mods_from_bits(&args[4]), mode_from(&args[5])).expect("unknown layout");
            println!("{}", fmt_decoded(d));
        }
        "bytes" => {
            // bytes <1|2> <hex>...
            let b = hexbytes(&args[3..]);
            let out = if args[2] == "1" { feed(&mut ScancodeSet1::new(), &b) } else { feed(&mut ScancodeSet2::new(), &b) };
            println!("{}", out.join(" "));
        }
        "word" => {
            // word <hex u16>
            let w = u16::from_str_radix(args[2].trim_start_matches("0x"), 16).unwrap();
            println!("{:?}", Ps2Decoder::new().add_word(w));
        }
        "bits" => {
            // bits <string of 0/1/c>   (c = clear())
            let mut d = Ps2Decoder::new();
            let mut out = Vec::new();
            for ch in args[2].chars() {
                match ch {
                    '0' => out.push(format!("{:?}", d.add_bit(false))),
                    '1' => out.push(format!("{:?}", d.add_bit(true))),
                    'c' => {
                        d.clear();
                        out.push("clear".to_string())
                    }
                    _ => {}
                }
            }
            println!("{}", out.join(" "));
        }
        "events" => {
            // events <layout> <mode> <Key/State>...   -> decoded keys and final modifiers
            let mut out = Vec::new();
            let mut d = EventDecoder::new(AnyLayout::Us104Key(Us104Key), mode_from(&args[3]));
            d.change_layout(any_layout(&args[2]).expect("unknown layout"));
            for e in &args[4..] {
                if let Some(m) = e.strip_prefix("mode=") {
                    d.set_ctrl_handling(mode_from(m));
                    continue;
                }
                if let Some(l) = e.strip_prefix("layout=") {
                    d.change_layout(any_layout(l).expect("unknown layout"));
                    continue;
                }
                let (k, s) = e.split_once('/').expect("Key/State");
                let r = d.process_keyevent(KeyEvent::new(key_from(k), state_from(s)));
                out.push(match r {
                    None => "None".to_string(),
                    Some(x) => fmt_decoded(x),
                });
            }
            // modifiers are only observable through Keyboard::get_modifiers: replay the same events there
            let mut kb = Keyboard::new(ScancodeSet2::new(), any_layout(&args[2]).unwrap(), mode_from(&args[3]));
            for e in &args[4..] {
                if e.contains('=') {
                    continue;
                }
                let (k, s) = e.split_once('/').unwrap();
                kb.process_keyevent(KeyEvent::new(key_from(k), state_from(s)));
            }
            println!("{} mods={}", out.join(" "), mods_to_bits(kb.get_modifiers()));
        }
        "keyboard" => {
            // keyboard <1|2> <layout> <mode> ops...   ops: bit=0|1 word=hex byte=hex clear ev=Key/State mode=..
            let set = args[2].clone();
            let lay = any_layout(&args[3]).expect("unknown layout");
            let mode = mode_from(&args[4]);
            fn go<S: ScancodeSet>(mut kb: Keyboard<AnyLayout, S>, ops: &[String]) {
                let mut out = Vec::new();
                for op in ops {
                    if let Some(v) = op.strip_prefix("bit=") {
                        out.push(fmt_sc(kb.add_bit(v == "1")));
                    } else if let Some(v) = op.strip_prefix("word=") {
                        out.push(fmt_sc(kb.add_word(u16::from_str_radix(v.trim_start_matches("0x"), 16).unwrap())));
                    } else if let Some(v) = op.strip_prefix("byte=") {
                        out.push(fmt_sc(kb.add_byte(u8::from_str_radix(v.trim_start_matches("0x"), 16).unwrap())));
                    } else if op == "clear" {
                        kb.clear();
                        out.push("clear".to_string());
                    } else if let Some(v) = op.strip_prefix("mode=") {
                        kb.set_ctrl_handling(mode_from(v));
                        out.push("mode".to_string());
                    } else if let Some(v) = op.strip_prefix("ev=") {
                        let (k, s) = v.split_once('/').unwrap();
                        out.push(match kb.process_keyevent(KeyEvent::new(key_from(k), state_from(s))) {
                            None => "None".to_string(),
                            Some(x) => fmt_decoded(x),
                        });
                    }
                }
                println!("{} mods={}", out.join(" "), mods_to_bits(kb.get_modifiers()));
            }
            if set == "1" {
                go(Keyboard::new(ScancodeSet1::new(), lay, mode), &args[5..]);
            } else {
                go(Keyboard::new(ScancodeSet2::new(), lay, mode), &args[5..]);
            }
        }
        "kanicex" => {
            // kanicex <scenario> <integers...>: run a scenario of xspec.rs with the concrete values of a Kani counterexample
            let v: Vec<u64> = args[3..].iter().map(|a| a.parse::<u64>().expect("integer")).collect();
            let name = args[2].clone();
            let r = std::panic::catch_unwind(move || match name.as_str() {
                "word" => scenario_word(v[0] as u16, true),
                "bits" => scenario_bits(v[0] as u32, v[1] as u8, v[2] as u8, true),
                "stream1" | "stream2" => scenario_stream(if name == "stream1" { 1 } else { 2 }, [v[0] as u8, v[1] as u8, v[2] as u8, v[3] as u8], v[4] as u8, true),
                "events" | "events_mods" | "events_decode" | "events_values" | "events_values_all" => scenario_events_aspect(
                    [v[0] as u8, v[1] as u8, v[2] as u8],
                    [v[3] as u8, v[4] as u8, v[5] as u8],
                    v[6] as u8,
                    v[7] as u8,
                    if name == "events_mods" { 1 } else if name == "events_decode" { 2 } else if name == "events_values" { 6 } else if name == "events_values_all" { 7 } else { 3 },
                    true,
                ),
                "events_deep" => scenario_events_deep(v[0] != 0, (v[1] as u64).to_le_bytes(), (v[2] as u64).to_le_bytes(), true),
                "events_real" => scenario_events_real([v[0] as u8, v[1] as u8, v[2] as u8], [v[3] as u8, v[4] as u8, v[5] as u8], v[6] as u8, v[7] as u8, v[8] as u8, true),
                "switching" => scenario_switching([v[0] as u8, v[1] as u8, v[2] as u8], [v[3] as u8, v[4] as u8, v[5] as u8], v[6] as u8, v[7] as u8, v[8] as u8, v[9] != 0, true),
                "resync1" | "resync2" => scenario_resync(if name == "resync1" { 1 } else { 2 }, [v[0] as u8, v[1] as u8, v[2] as u8, v[3] as u8], v[4] as u8, [v[5] as u8, v[6] as u8, v[7] as u8], true),
                "injective1" | "injective2" => scenario_injective(if name == "injective1" { 1 } else { 2 }, v[0] as u8, v[1] as u8, v[2] as u8, v[3] as u8, v[4] as u8, true),
                "pairing1" | "pairing2" => scenario_pairing_after(if name == "pairing1" { 1 } else { 2 }, v[0] as u8, v[1] as u8, v[2] as u8, true),
                "keyboard1" | "keyboard2" => scenario_keyboard(if name == "keyboard1" { 1 } else { 2 }, v[0] as u16, v[1] as u8, [v[2] as u8, v[3] as u8], v[4] as u8, v[5] as u8, v[6] as u16, v[7] as u8, true),
                "layout_total" => scenario_layout_total(v[0] as u8, v[1] as u8, v[2] as u8, v[3] as u16, v[4] != 0, true),
                _ => panic!("unknown scenario"),
            });
            match r {
                Ok(true) => println!("RESULT agrees"),
                Ok(false) if panic_only() => println!("RESULT agrees (panic-only mode: results differ from the specification, nothing panicked)"),
                Ok(false) => println!("RESULT MISMATCH"),
                Err(e) => {
                    let msg = if let Some(s) = e.downcast_ref::<&str>() { s.to_string() } else if let Some(s) = e.downcast_ref::<String>() { s.clone() } else { "panic".to_string() };
                    if panic_not_mine() {
                        println!("RESULT agrees (the real code panicked: {} - a panic is C08's hit, not this relational property's)", msg)
                    } else {
                        println!("RESULT PANIC: {}", msg)
                    }
                }
            }
        }
        "sweep" => {
            println!("{}", sweep::run(&args[2..]));
        }
        "cellcheck" => {
            println!("{}", cellcheck::run(&args[2..]));
        }
        _ => {
            eprintln!("usage: replayer tables|layouts|layout|bytes|word|bits|events|keyboard ...");
            std::process::exit(2);
        }
    }
}
