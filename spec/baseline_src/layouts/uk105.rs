//! United Kingdom keyboard support

use crate::{DecodedKey, HandleControl, KeyCode, KeyboardLayout, Modifiers};

/// A standard United Kingdom 102-key (or 105-key including Windows keys) keyboard.
///
/// Has a 2-row high Enter key, with Oem5 next to the left shift (ISO format).
pub struct Uk105Key;

impl KeyboardLayout for Uk105Key {
    fn map_keycode(
        &self,
        keycode: KeyCode,
        modifiers: &Modifiers,
        handle_ctrl: HandleControl,
    ) -> DecodedKey {
        match keycode {
            KeyCode::Oem8 => {
                if modifiers.is_altgr() {
                    DecodedKey::Unicode('|')
                } else if modifiers.is_shifted() {
                    DecodedKey::Unicode('¬')
                } else {
                    DecodedKey::Unicode('`')
                }
            }
            KeyCode::Key2 => {
                if modifiers.is_shifted() {
                    DecodedKey::Unicode('"')
                } else {
                    DecodedKey::Unicode('2')
                }
            }
            KeyCode::Oem3 => {
                if modifiers.is_shifted() {
                    DecodedKey::Unicode('@')
                } else {
                    DecodedKey::Unicode('\'')
                }
            }
            KeyCode::Key3 => {
                if modifiers.is_shifted() {
                    DecodedKey::Unicode('£')
                } else {
                    DecodedKey::Unicode('3')
                }
            }
            KeyCode::Key4 => {
                if modifiers.is_altgr() {
                    DecodedKey::Unicode('€')
                } else if modifiers.is_shifted() {
                    DecodedKey::Unicode('$')
                } else {
                    DecodedKey::Unicode('4')
                }
            }
            KeyCode::Oem7 => {
                if modifiers.is_shifted() {
                    DecodedKey::Unicode('~')
                } else {
                    DecodedKey::Unicode('#')
                }
            }
            KeyCode::Oem5 => {
                if modifiers.is_shifted() {
                    DecodedKey::Unicode('|')
                } else {
                    DecodedKey::Unicode('\\')
                }
            }
            e => {
                let us = super::Us104Key;
                us.map_keycode(e, modifiers, handle_ctrl)
            }
        }
    }
}

#[cfg(test)]
mod test {
    use super::*;
    use crate::{EventDecoder, HandleControl, Keyboard, ScancodeSet, ScancodeSet1, ScancodeSet2};

    #[test]
    fn layout() {
        // Codes taken from https://kbdlayout.info/kbduk/overview+scancodes?arrangement=ISO105
        let mut s = ScancodeSet1::new();
        let mut dec = EventDecoder::new(Uk105Key, HandleControl::Ignore);
        let data = [
            (0x29, '`'),
            (0x02, '1'),
            (0x03, '2'),
            (0x04, '3'),
            (0x05, '4'),
            (0x06, '5'),
            (0x07, '6'),
            (0x08, '7'),
            (0x09, '8'),
            (0x0a, '9'),
            (0x0b, '0'),
            (0x0c, '-'),
            (0x0d, '='),
            (0x0f, '\t'),
            (0x10, 'q'),
            (0x11, 'w'),
            (0x12, 'e'),
            (0x13, 'r'),
            (0x14, 't'),
            (0x15, 'y'),
            (0x16, 'u'),
            (0x17, 'i'),
            (0x18, 'o'),
            (0x19, 'p'),
            (0x1a, '['),
            (0x1b, ']'),
            (0x1e, 'a'),
            (0x1f, 's'),
            (0x20, 'd'),
            (0x21, 'f'),
            (0x22, 'g'),
            (0x23, 'h'),
            (0x24, 'j'),
            (0x25, 'k'),
            (0x26, 'l'),
            (0x27, ';'),
            (0x28, '\''),
            (0x2B, '#'),
            (0x1c, '\n'),
            (0x56, '\\'),
            (0x2c, 'z'),
            (0x2d, 'x'),
            (0x2e, 'c'),
            (0x2f, 'v'),
            (0x30, 'b'),
            (0x31, 'n'),
            (0x32, 'm'),
            (0x33, ','),
            (0x34, '.'),
            (0x35, '/'),
        ];
        for (code, unicode) in data {
            let ev = s.advance_state(code).unwrap().unwrap();
            assert_eq!(Some(DecodedKey::Unicode(unicode)), dec.process_keyevent(ev));
        }
    }

    #[test]
    fn test_hash() {
        let mut k = Keyboard::new(
            ScancodeSet2::new(),
            Uk105Key,
            HandleControl::MapLettersToUnicode,
        );
        // As seen on a UK 105 key Dell PS/2 keyboard when pressing `~#`
        let ev = k.add_byte(0x5D).unwrap().unwrap();
        let decoded_key = k.process_keyevent(ev);
        assert_eq!(decoded_key, Some(DecodedKey::Unicode('#')));
    }

    #[test]
    fn test_backslash() {
        let mut k = Keyboard::new(
            ScancodeSet2::new(),
            Uk105Key,
            HandleControl::MapLettersToUnicode,
        );
        // As seen on a UK 105 key Dell PS/2 keyboard when pressing `|\`
        let ev = k.add_byte(0x61).unwrap().unwrap();
        let decoded_key = k.process_keyevent(ev);
        assert_eq!(decoded_key, Some(DecodedKey::Unicode('\\')));
    }

    #[test]
    fn test_tilde() {
        let mut k = Keyboard::new(
            ScancodeSet2::new(),
            Uk105Key,
            HandleControl::MapLettersToUnicode,
        );
        // As seen on a UK 105 key Dell PS/2 keyboard when pressing Shift and `~#`
        let ev = k.add_byte(0x12).unwrap().unwrap();
        let _ = k.process_keyevent(ev);
        let ev = k.add_byte(0x5D).unwrap().unwrap();
        let decoded_key = k.process_keyevent(ev);
        assert_eq!(decoded_key, Some(DecodedKey::Unicode('~')));
    }

    #[test]
    fn test_pipe() {
        let mut k = Keyboard::new(
            ScancodeSet2::new(),
            Uk105Key,
            HandleControl::MapLettersToUnicode,
        );
        // As seen on a UK 105 key Dell PS/2 keyboard when pressing Shift and `|\`
        let ev = k.add_byte(0x12).unwrap().unwrap();
        let _ = k.process_keyevent(ev);
        let ev = k.add_byte(0x61).unwrap().unwrap();
        let decoded_key = k.process_keyevent(ev);
        assert_eq!(decoded_key, Some(DecodedKey::Unicode('|')));
    }
}
