//! German keyboard support

use crate::{DecodedKey, HandleControl, KeyCode, KeyboardLayout, Modifiers};

/// A standard German 102-key (or 105-key including Windows keys) keyboard.
///
/// The top row spells `QWERTZ`.
///
/// Has a 2-row high Enter key, with Oem5 next to the left shift (ISO format).
pub struct De105Key;

impl KeyboardLayout for De105Key {
    fn map_keycode(
        &self,
        keycode: KeyCode,
        modifiers: &Modifiers,
        handle_ctrl: HandleControl,
    ) -> DecodedKey {
        let map_to_unicode = handle_ctrl == HandleControl::MapLettersToUnicode;
        match keycode {
            KeyCode::Escape => DecodedKey::Unicode(0x1B.into()),
            KeyCode::Oem8 => {
                if modifiers.is_shifted() {
                    DecodedKey::Unicode('°')
                } else {
                    DecodedKey::Unicode('^')
                }
            }
            KeyCode::Key1 => {
                if modifiers.is_shifted() {
                    DecodedKey::Unicode('!')
                } else {
                    DecodedKey::Unicode('1')
                }
            }
            KeyCode::Key2 => {
                if modifiers.is_shifted() {
                    DecodedKey::Unicode('"')
                } else {
                    DecodedKey::Unicode('2')
                }
            }
            KeyCode::Key3 => {
                if modifiers.is_shifted() {
                    DecodedKey::Unicode('§')
                } else {
                    DecodedKey::Unicode('3')
                }
            }
            KeyCode::Key4 => {
                if modifiers.is_shifted() {
                    DecodedKey::Unicode('$')
                } else {
                    DecodedKey::Unicode('4')
                }
            }
            KeyCode::Key5 => {
                if modifiers.is_shifted() {
                    DecodedKey::Unicode('%')
                } else {
                    DecodedKey::Unicode('5')
                }
            }
            KeyCode::Key6 => {
                if modifiers.is_shifted() {
                    DecodedKey::Unicode('&')
                } else {
                    DecodedKey::Unicode('6')
                }
            }
            KeyCode::Key7 => {
                if modifiers.is_altgr() {
                    DecodedKey::Unicode('{')
                } else if modifiers.is_shifted() {
                    DecodedKey::Unicode('/')
                } else {
                    DecodedKey::Unicode('7')
                }
            }
            KeyCode::Key8 => {
                if modifiers.is_altgr() {
                    DecodedKey::Unicode('[')
                } else if modifiers.is_shifted() {
                    DecodedKey::Unicode('(')
                } else {
                    DecodedKey::Unicode('8')
                }
            }
            KeyCode::Key9 => {
                if modifiers.is_altgr() {
                    DecodedKey::Unicode(']')
                } else if modifiers.is_shifted() {
                    DecodedKey::Unicode(')')
                } else {
                    DecodedKey::Unicode('9')
                }
            }
            KeyCode::Key0 => {
                if modifiers.is_altgr() {
                    DecodedKey::Unicode('}')
                } else if modifiers.is_shifted() {
                    DecodedKey::Unicode('=')
                } else {
                    DecodedKey::Unicode('0')
                }
            }
            KeyCode::OemMinus => {
                if modifiers.is_altgr() {
                    DecodedKey::Unicode('\\')
                } else if modifiers.is_shifted() {
                    DecodedKey::Unicode('?')
                } else {
                    DecodedKey::Unicode('ß')
                }
            }
            KeyCode::OemPlus => {
                if modifiers.is_shifted() {
                    DecodedKey::Unicode('`')
                } else {
                    DecodedKey::Unicode('´')
                }
            }
            KeyCode::Backspace => DecodedKey::Unicode(0x08.into()),
            KeyCode::Tab => DecodedKey::Unicode(0x09.into()),
            KeyCode::Q => {
                if map_to_unicode && modifiers.is_ctrl() {
                    DecodedKey::Unicode('\u{0011}')
                } else if modifiers.is_altgr() {
                    DecodedKey::Unicode('@')
                } else if modifiers.is_caps() {
                    DecodedKey::Unicode('Q')
                } else {
                    DecodedKey::Unicode('q')
                }
            }
            KeyCode::E => {
                if map_to_unicode && modifiers.is_ctrl() {
                    DecodedKey::Unicode('\u{0005}')
                } else if modifiers.is_altgr() {
                    DecodedKey::Unicode('€')
                } else if modifiers.is_caps() {
                    DecodedKey::Unicode('E')
                } else {
                    DecodedKey::Unicode('e')
                }
            }
            KeyCode::Y => {
                if map_to_unicode && modifiers.is_ctrl() {
                    DecodedKey::Unicode('\u{001A}')
                } else if modifiers.is_caps() {
                    DecodedKey::Unicode('Z')
                } else {
                    DecodedKey::Unicode('z')
                }
            }
            KeyCode::Oem4 => {
                if modifiers.is_caps() {
                    DecodedKey::Unicode('Ü')
                } else {
                    DecodedKey::Unicode('ü')
                }
            }
            KeyCode::Oem6 => {
                if modifiers.is_altgr() {
                    DecodedKey::Unicode('~')
                } else if modifiers.is_shifted() {
                    DecodedKey::Unicode('*')
                } else {
                    DecodedKey::Unicode('+')
                }
            }
            KeyCode::Return => DecodedKey::Unicode(10.into()),
            KeyCode::Oem7 => {
                if modifiers.is_shifted() {
                    DecodedKey::Unicode('\'')
                } else {
                    DecodedKey::Unicode('#')
                }
            }
            KeyCode::Oem1 => {
                if modifiers.is_caps() {
                    DecodedKey::Unicode('Ö')
                } else {
                    DecodedKey::Unicode('ö')
                }
            }
            KeyCode::Oem3 => {
                if modifiers.is_caps() {
                    DecodedKey::Unicode('Ä')
                } else {
                    DecodedKey::Unicode('ä')
                }
            }
            KeyCode::Z => {
                if map_to_unicode && modifiers.is_ctrl() {
                    DecodedKey::Unicode('\u{0019}')
                } else if modifiers.is_caps() {
                    DecodedKey::Unicode('Y')
                } else {
                    DecodedKey::Unicode('y')
                }
            }
            KeyCode::OemComma => {
                if modifiers.is_shifted() {
                    DecodedKey::Unicode(';')
                } else {
                    DecodedKey::Unicode(',')
                }
            }
            KeyCode::OemPeriod => {
                if modifiers.is_shifted() {
                    DecodedKey::Unicode(':')
                } else {
                    DecodedKey::Unicode('.')
                }
            }
            KeyCode::Oem2 => {
                if modifiers.is_shifted() {
                    DecodedKey::Unicode('_')
                } else {
                    DecodedKey::Unicode('-')
                }
            }
            KeyCode::Oem5 => {
                if modifiers.is_shifted() {
                    DecodedKey::Unicode('>')
                } else if modifiers.is_altgr() {
                    DecodedKey::Unicode('|')
                } else {
                    DecodedKey::Unicode('<')
                }
            }
            KeyCode::NumpadPeriod => {
                if modifiers.numlock {
                    DecodedKey::Unicode(',')
                } else {
                    DecodedKey::Unicode(127.into())
                }
            }
            e => {
                let us = super::Us104Key;
                us.map_keycode(e, modifiers, handle_ctrl)
            }
        }
    }
}
