//! Implements the various keyboard layouts.
//!
//! We have one layout per file, but where two layouts are similar, you can
//! handle all the 'different' keys first, and then jump to another handler -
//! see [`Uk105Key`] and [`Us104Key`] as an example of that.

mod dvorak_programmer104;
pub use self::dvorak_programmer104::DVP104Key;

mod dvorak104;
pub use self::dvorak104::Dvorak104Key;

mod us104;
pub use self::us104::Us104Key;

mod uk105;
pub use self::uk105::Uk105Key;

mod jis109;
pub use self::jis109::Jis109Key;

mod azerty;
pub use self::azerty::Azerty;

mod colemak;
pub use self::colemak::Colemak;

mod de105;
pub use self::de105::De105Key;

mod no105;
pub use self::no105::No105Key;

mod fi_se105;
pub use self::fi_se105::FiSe105Key;

/// A enum of all the supported keyboard layouts.
pub enum AnyLayout {
    DVP104Key(DVP104Key),
    Dvorak104Key(Dvorak104Key),
    Us104Key(Us104Key),
    Uk105Key(Uk105Key),
    Jis109Key(Jis109Key),
    Azerty(Azerty),
    Colemak(Colemak),
    De105Key(De105Key),
    No105Key(No105Key),
    FiSe105Key(FiSe105Key),
}

impl super::KeyboardLayout for AnyLayout {
    fn map_keycode(
        &self,
        keycode: super::KeyCode,
        modifiers: &super::Modifiers,
        handle_ctrl: super::HandleControl,
    ) -> super::DecodedKey {
        match self {
            AnyLayout::DVP104Key(inner) => inner.map_keycode(keycode, modifiers, handle_ctrl),
            AnyLayout::Dvorak104Key(inner) => inner.map_keycode(keycode, modifiers, handle_ctrl),
            AnyLayout::Us104Key(inner) => inner.map_keycode(keycode, modifiers, handle_ctrl),
            AnyLayout::Uk105Key(inner) => inner.map_keycode(keycode, modifiers, handle_ctrl),
            AnyLayout::Jis109Key(inner) => inner.map_keycode(keycode, modifiers, handle_ctrl),
            AnyLayout::Azerty(inner) => inner.map_keycode(keycode, modifiers, handle_ctrl),
            AnyLayout::Colemak(inner) => inner.map_keycode(keycode, modifiers, handle_ctrl),
            AnyLayout::De105Key(inner) => inner.map_keycode(keycode, modifiers, handle_ctrl),
            AnyLayout::No105Key(inner) => inner.map_keycode(keycode, modifiers, handle_ctrl),
            AnyLayout::FiSe105Key(inner) => inner.map_keycode(keycode, modifiers, handle_ctrl),
        }
    }
}

impl super::KeyboardLayout for &AnyLayout {
    fn map_keycode(
        &self,
        keycode: super::KeyCode,
        modifiers: &super::Modifiers,
        handle_ctrl: super::HandleControl,
    ) -> super::DecodedKey {
        match self {
            AnyLayout::DVP104Key(inner) => inner.map_keycode(keycode, modifiers, handle_ctrl),
            AnyLayout::Dvorak104Key(inner) => inner.map_keycode(keycode, modifiers, handle_ctrl),
            AnyLayout::Us104Key(inner) => inner.map_keycode(keycode, modifiers, handle_ctrl),
            AnyLayout::Uk105Key(inner) => inner.map_keycode(keycode, modifiers, handle_ctrl),
            AnyLayout::Jis109Key(inner) => inner.map_keycode(keycode, modifiers, handle_ctrl),
            AnyLayout::Azerty(inner) => inner.map_keycode(keycode, modifiers, handle_ctrl),
            AnyLayout::Colemak(inner) => inner.map_keycode(keycode, modifiers, handle_ctrl),
            AnyLayout::De105Key(inner) => inner.map_keycode(keycode, modifiers, handle_ctrl),
            AnyLayout::No105Key(inner) => inner.map_keycode(keycode, modifiers, handle_ctrl),
            AnyLayout::FiSe105Key(inner) => inner.map_keycode(keycode, modifiers, handle_ctrl),
        }
    }
}

#[cfg(test)]
mod test {
    use super::*;
    use crate::*;

    #[test]
    fn test_any() {
        let mut decoder = EventDecoder::new(AnyLayout::Uk105Key(Uk105Key), HandleControl::Ignore);
        // Q gets you a 'q'
        let decoded = decoder.process_keyevent(KeyEvent {
            code: KeyCode::Q,
            state: KeyState::Down,
        });
        assert_eq!(decoded, Some(DecodedKey::Unicode('q')));
        // Swap the layout
        decoder.change_layout(AnyLayout::Azerty(Azerty));
        // Q gets you a 'a'
        let decoded = decoder.process_keyevent(KeyEvent {
            code: KeyCode::Q,
            state: KeyState::Down,
        });
        assert_eq!(decoded, Some(DecodedKey::Unicode('a')));
    }
}
