//! Dvorak keyboard support

use crate::{DecodedKey, HandleControl, KeyCode, KeyboardLayout, Modifiers};

/// A Dvorak 101-key (or 104-key including Windows keys) keyboard.
///
/// Has a 1-row high Enter key, with Oem5 above (ANSI layout).
pub struct Dvorak104Key;

impl KeyboardLayout for Dvorak104Key {
    fn map_keycode(
        &self,
        keycode: KeyCode,
        modifiers: &Modifiers,
        handle_ctrl: HandleControl,
    ) -> DecodedKey {
        let map_to_unicode = handle_ctrl == HandleControl::MapLettersToUnicode;
        match keycode {
            KeyCode::OemMinus => {
                if modifiers.is_shifted() {
                    DecodedKey::Unicode('{')
                } else {
                    DecodedKey::Unicode('[')
                }
            }
            KeyCode::OemPlus => {
                if modifiers.is_shifted() {
                    DecodedKey::Unicode('}')
                } else {
                    DecodedKey::Unicode(']')
                }
            }
            KeyCode::Q => {
                if modifiers.is_shifted() {
                    DecodedKey::Unicode('"')
                } else {
                    DecodedKey::Unicode('\'')
                }
            }
            KeyCode::W => {
                if modifiers.is_shifted() {
                    DecodedKey::Unicode('<')
                } else {
                    DecodedKey::Unicode(',')
                }
            }
            KeyCode::E => {
                if modifiers.is_shifted() {
                    DecodedKey::Unicode('>')
                } else {
                    DecodedKey::Unicode('.')
                }
            }
            KeyCode::R => {
                if map_to_unicode && modifiers.is_ctrl() {
                    DecodedKey::Unicode('\u{0010}')
                } else if modifiers.is_caps() {
                    DecodedKey::Unicode('P')
                } else {
                    DecodedKey::Unicode('p')
                }
            }
            KeyCode::T => {
                if map_to_unicode && modifiers.is_ctrl() {
                    DecodedKey::Unicode('\u{0019}')
                } else if modifiers.is_caps() {
                    DecodedKey::Unicode('Y')
                } else {
                    DecodedKey::Unicode('y')
                }
            }
            KeyCode::Y => {
                if map_to_unicode && modifiers.is_ctrl() {
                    DecodedKey::Unicode('\u{0006}')
                } else if modifiers.is_caps() {
                    DecodedKey::Unicode('F')
                } else {
                    DecodedKey::Unicode('f')
                }
            }
            KeyCode::U => {
                if map_to_unicode && modifiers.is_ctrl() {
                    DecodedKey::Unicode('\u{0007}')
                } else if modifiers.is_caps() {
                    DecodedKey::Unicode('G')
                } else {
                    DecodedKey::Unicode('g')
                }
            }
            KeyCode::I => {
                if map_to_unicode && modifiers.is_ctrl() {
                    DecodedKey::Unicode('\u{0003}')
                } else if modifiers.is_caps() {
                    DecodedKey::Unicode('C')
                } else {
                    DecodedKey::Unicode('c')
                }
            }
            KeyCode::O => {
                if map_to_unicode && modifiers.is_ctrl() {
                    DecodedKey::Unicode('\u{0012}')
                } else if modifiers.is_caps() {
                    DecodedKey::Unicode('R')
                } else {
                    DecodedKey::Unicode('r')
                }
            }
            KeyCode::P => {
                if map_to_unicode && modifiers.is_ctrl() {
                    DecodedKey::Unicode('\u{000C}')
                } else if modifiers.is_caps() {
                    DecodedKey::Unicode('L')
                } else {
                    DecodedKey::Unicode('l')
                }
            }
            KeyCode::Oem4 => {
                if modifiers.is_shifted() {
                    DecodedKey::Unicode('?')
                } else {
                    DecodedKey::Unicode('/')
                }
            }
            KeyCode::Oem6 => {
                if modifiers.is_shifted() {
                    DecodedKey::Unicode('+')
                } else {
                    DecodedKey::Unicode('=')
                }
            }
            KeyCode::S => {
                if map_to_unicode && modifiers.is_ctrl() {
                    DecodedKey::Unicode('\u{000F}')
                } else if modifiers.is_caps() {
                    DecodedKey::Unicode('O')
                } else {
                    DecodedKey::Unicode('o')
                }
            }
            KeyCode::D => {
                if map_to_unicode && modifiers.is_ctrl() {
                    DecodedKey::Unicode('\u{0005}')
                } else if modifiers.is_caps() {
                    DecodedKey::Unicode('E')
                } else {
                    DecodedKey::Unicode('e')
                }
            }
            KeyCode::F => {
                if map_to_unicode && modifiers.is_ctrl() {
                    DecodedKey::Unicode('\u{0015}')
                } else if modifiers.is_caps() {
                    DecodedKey::Unicode('U')
                } else {
                    DecodedKey::Unicode('u')
                }
            }
            KeyCode::G => {
                if map_to_unicode && modifiers.is_ctrl() {
                    DecodedKey::Unicode('\u{0009}')
                } else if modifiers.is_caps() {
                    DecodedKey::Unicode('I')
                } else {
                    DecodedKey::Unicode('i')
                }
            }
            KeyCode::H => {
                if map_to_unicode && modifiers.is_ctrl() {
                    DecodedKey::Unicode('\u{0004}')
                } else if modifiers.is_caps() {
                    DecodedKey::Unicode('D')
                } else {
                    DecodedKey::Unicode('d')
                }
            }
            KeyCode::J => {
                if map_to_unicode && modifiers.is_ctrl() {
                    DecodedKey::Unicode('\u{0008}')
                } else if modifiers.is_caps() {
                    DecodedKey::Unicode('H')
                } else {
                    DecodedKey::Unicode('h')
                }
            }
            KeyCode::K => {
                if map_to_unicode && modifiers.is_ctrl() {
                    DecodedKey::Unicode('\u{0014}')
                } else if modifiers.is_caps() {
                    DecodedKey::Unicode('T')
                } else {
                    DecodedKey::Unicode('t')
                }
            }
            KeyCode::L => {
                if map_to_unicode && modifiers.is_ctrl() {
                    DecodedKey::Unicode('\u{000E}')
                } else if modifiers.is_caps() {
                    DecodedKey::Unicode('N')
                } else {
                    DecodedKey::Unicode('n')
                }
            }
            KeyCode::Oem1 => {
                if map_to_unicode && modifiers.is_ctrl() {
                    DecodedKey::Unicode('\u{0013}')
                } else if modifiers.is_caps() {
                    DecodedKey::Unicode('S')
                } else {
                    DecodedKey::Unicode('s')
                }
            }
            KeyCode::Oem3 => {
                if modifiers.is_shifted() {
                    DecodedKey::Unicode('_')
                } else {
                    DecodedKey::Unicode('-')
                }
            }
            KeyCode::Z => {
                if modifiers.is_shifted() {
                    DecodedKey::Unicode(':')
                } else {
                    DecodedKey::Unicode(';')
                }
            }
            KeyCode::X => {
                if map_to_unicode && modifiers.is_ctrl() {
                    DecodedKey::Unicode('\u{0011}')
                } else if modifiers.is_caps() {
                    DecodedKey::Unicode('Q')
                } else {
                    DecodedKey::Unicode('q')
                }
            }
            KeyCode::C => {
                if map_to_unicode && modifiers.is_ctrl() {
                    DecodedKey::Unicode('\u{000A}')
                } else if modifiers.is_caps() {
                    DecodedKey::Unicode('J')
                } else {
                    DecodedKey::Unicode('j')
                }
            }
            KeyCode::V => {
                if map_to_unicode && modifiers.is_ctrl() {
                    DecodedKey::Unicode('\u{000B}')
                } else if modifiers.is_caps() {
                    DecodedKey::Unicode('K')
                } else {
                    DecodedKey::Unicode('k')
                }
            }
            KeyCode::B => {
                if map_to_unicode && modifiers.is_ctrl() {
                    DecodedKey::Unicode('\u{0018}')
                } else if modifiers.is_caps() {
                    DecodedKey::Unicode('X')
                } else {
                    DecodedKey::Unicode('x')
                }
            }
            KeyCode::N => {
                if map_to_unicode && modifiers.is_ctrl() {
                    DecodedKey::Unicode('\u{0002}')
                } else if modifiers.is_caps() {
                    DecodedKey::Unicode('B')
                } else {
                    DecodedKey::Unicode('b')
                }
            }
            KeyCode::OemComma => {
                if map_to_unicode && modifiers.is_ctrl() {
                    DecodedKey::Unicode('\u{0017}')
                } else if modifiers.is_caps() {
                    DecodedKey::Unicode('W')
                } else {
                    DecodedKey::Unicode('w')
                }
            }
            KeyCode::OemPeriod => {
                if map_to_unicode && modifiers.is_ctrl() {
                    DecodedKey::Unicode('\u{0016}')
                } else if modifiers.is_caps() {
                    DecodedKey::Unicode('V')
                } else {
                    DecodedKey::Unicode('v')
                }
            }
            KeyCode::Oem2 => {
                if map_to_unicode && modifiers.is_ctrl() {
                    DecodedKey::Unicode('\u{001A}')
                } else if modifiers.is_caps() {
                    DecodedKey::Unicode('Z')
                } else {
                    DecodedKey::Unicode('z')
                }
            }
            e => {
                let us = super::Us104Key;
                us.map_keycode(e, modifiers, handle_ctrl)
            }
        }
    }
}
