//! JIS keyboard support

use crate::{DecodedKey, HandleControl, KeyCode, KeyboardLayout, Modifiers};

/// A standard Japan 106-key (or 109-key including Windows keys) keyboard.
///
/// Has a small space bar, to fit in extra keys.
///
/// We used <https://www.win.tue.nl/~aeb/linux/kbd/scancodes-8.html> as a
/// reference.
pub struct Jis109Key;

impl KeyboardLayout for Jis109Key {
    fn map_keycode(
        &self,
        keycode: KeyCode,
        modifiers: &Modifiers,
        handle_ctrl: HandleControl,
    ) -> DecodedKey {
        match keycode {
            KeyCode::Oem8 => {
                // hankaku/zenkaku/kanji
                DecodedKey::RawKey(KeyCode::Oem8)
            }
            KeyCode::Escape => DecodedKey::Unicode(0x1B.into()),
            KeyCode::Key1 => {
                if modifiers.is_shifted() {
                    DecodedKey::Unicode('!')
                } else {
                    DecodedKey::Unicode('1')
                }
            }
            KeyCode::Key2 => {
                if modifiers.is_shifted() {
                    DecodedKey::Unicode('"')
                } else {
                    DecodedKey::Unicode('2')
                }
            }
            KeyCode::Key3 => {
                if modifiers.is_shifted() {
                    DecodedKey::Unicode('#')
                } else {
                    DecodedKey::Unicode('3')
                }
            }
            KeyCode::Key4 => {
                if modifiers.is_shifted() {
                    DecodedKey::Unicode('$')
                } else {
                    DecodedKey::Unicode('4')
                }
            }
            KeyCode::Key5 => {
                if modifiers.is_shifted() {
                    DecodedKey::Unicode('%')
                } else {
                    DecodedKey::Unicode('5')
                }
            }
            KeyCode::Key6 => {
                if modifiers.is_shifted() {
                    DecodedKey::Unicode('&')
                } else {
                    DecodedKey::Unicode('6')
                }
            }
            KeyCode::Key7 => {
                if modifiers.is_shifted() {
                    DecodedKey::Unicode('\'')
                } else {
                    DecodedKey::Unicode('7')
                }
            }
            KeyCode::Key8 => {
                if modifiers.is_shifted() {
                    DecodedKey::Unicode('(')
                } else {
                    DecodedKey::Unicode('8')
                }
            }
            KeyCode::Key9 => {
                if modifiers.is_shifted() {
                    DecodedKey::Unicode(')')
                } else {
                    DecodedKey::Unicode('9')
                }
            }
            KeyCode::Key0 => {
                if modifiers.is_shifted() {
                    DecodedKey::Unicode('~')
                } else {
                    DecodedKey::Unicode('0')
                }
            }
            KeyCode::OemMinus => {
                if modifiers.is_shifted() {
                    DecodedKey::Unicode('=')
                } else {
                    DecodedKey::Unicode('-')
                }
            }
            KeyCode::OemPlus => {
                if modifiers.is_shifted() {
                    DecodedKey::Unicode('¯')
                } else {
                    DecodedKey::Unicode('^')
                }
            }
            KeyCode::Oem4 => {
                if modifiers.is_shifted() {
                    DecodedKey::Unicode('`')
                } else {
                    DecodedKey::Unicode('@')
                }
            }
            KeyCode::Oem6 => {
                if modifiers.is_shifted() {
                    DecodedKey::Unicode('{')
                } else {
                    DecodedKey::Unicode('[')
                }
            }
            KeyCode::Oem7 => {
                if modifiers.is_shifted() {
                    DecodedKey::Unicode('}')
                } else {
                    DecodedKey::Unicode(']')
                }
            }
            KeyCode::Oem1 => {
                if modifiers.is_shifted() {
                    DecodedKey::Unicode('+')
                } else {
                    DecodedKey::Unicode(';')
                }
            }
            KeyCode::Oem3 => {
                if modifiers.is_shifted() {
                    DecodedKey::Unicode('*')
                } else {
                    DecodedKey::Unicode(':')
                }
            }
            KeyCode::Oem9 => {
                // Muhenkan
                DecodedKey::RawKey(keycode)
            }
            KeyCode::Oem10 => {
                // Henkan/Zenkouho
                DecodedKey::RawKey(keycode)
            }
            KeyCode::Oem11 => {
                // Hiragana/Katakana
                DecodedKey::RawKey(keycode)
            }
            KeyCode::Oem12 => {
                if modifiers.is_shifted() {
                    DecodedKey::Unicode('_')
                } else {
                    DecodedKey::Unicode('\\')
                }
            }
            KeyCode::Oem13 => {
                if modifiers.is_shifted() {
                    DecodedKey::Unicode('|')
                } else {
                    DecodedKey::Unicode('¥')
                }
            }

            e => {
                let us = super::Us104Key;
                us.map_keycode(e, modifiers, handle_ctrl)
            }
        }
    }
}
