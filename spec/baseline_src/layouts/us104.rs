//! United States keyboard support

use crate::{DecodedKey, HandleControl, KeyCode, KeyboardLayout, Modifiers};

/// A standard United States 101-key (or 104-key including Windows keys) keyboard.
///
/// Has a 1-row high Enter key, with Oem5 above (ANSI layout).
pub struct Us104Key;

impl KeyboardLayout for Us104Key {
    fn map_keycode(
        &self,
        keycode: KeyCode,
        modifiers: &Modifiers,
        handle_ctrl: HandleControl,
    ) -> DecodedKey {
        let map_to_unicode = handle_ctrl == HandleControl::MapLettersToUnicode;
        match keycode {
            KeyCode::Oem8 => {
                if modifiers.is_shifted() {
                    DecodedKey::Unicode('~')
                } else {
                    DecodedKey::Unicode('`')
                }
            }
            KeyCode::Escape => DecodedKey::Unicode(0x1B.into()),
            KeyCode::Key1 => {
                if modifiers.is_shifted() {
                    DecodedKey::Unicode('!')
                } else {
                    DecodedKey::Unicode('1')
                }
            }
            KeyCode::Key2 => {
                if modifiers.is_shifted() {
                    DecodedKey::Unicode('@')
                } else {
                    DecodedKey::Unicode('2')
                }
            }
            KeyCode::Key3 => {
                if modifiers.is_shifted() {
                    DecodedKey::Unicode('#')
                } else {
                    DecodedKey::Unicode('3')
                }
            }
            KeyCode::Key4 => {
                if modifiers.is_shifted() {
                    DecodedKey::Unicode('$')
                } else {
                    DecodedKey::Unicode('4')
                }
            }
            KeyCode::Key5 => {
                if modifiers.is_shifted() {
                    DecodedKey::Unicode('%')
                } else {
                    DecodedKey::Unicode('5')
                }
            }
            KeyCode::Key6 => {
                if modifiers.is_shifted() {
                    DecodedKey::Unicode('^')
                } else {
                    DecodedKey::Unicode('6')
                }
            }
            KeyCode::Key7 => {
                if modifiers.is_shifted() {
                    DecodedKey::Unicode('&')
                } else {
                    DecodedKey::Unicode('7')
                }
            }
            KeyCode::Key8 => {
                if modifiers.is_shifted() {
                    DecodedKey::Unicode('*')
                } else {
                    DecodedKey::Unicode('8')
                }
            }
            KeyCode::Key9 => {
                if modifiers.is_shifted() {
                    DecodedKey::Unicode('(')
                } else {
                    DecodedKey::Unicode('9')
                }
            }
            KeyCode::Key0 => {
                if modifiers.is_shifted() {
                    DecodedKey::Unicode(')')
                } else {
                    DecodedKey::Unicode('0')
                }
            }
            KeyCode::OemMinus => {
                if modifiers.is_shifted() {
                    DecodedKey::Unicode('_')
                } else {
                    DecodedKey::Unicode('-')
                }
            }
            KeyCode::OemPlus => {
                if modifiers.is_shifted() {
                    DecodedKey::Unicode('+')
                } else {
                    DecodedKey::Unicode('=')
                }
            }
            KeyCode::Backspace => DecodedKey::Unicode(0x08.into()),
            KeyCode::Tab => DecodedKey::Unicode(0x09.into()),
            KeyCode::Q => {
                if map_to_unicode && modifiers.is_ctrl() {
                    DecodedKey::Unicode('\u{0011}')
                } else if modifiers.is_caps() {
                    DecodedKey::Unicode('Q')
                } else {
                    DecodedKey::Unicode('q')
                }
            }
            KeyCode::W => {
                if map_to_unicode && modifiers.is_ctrl() {
                    DecodedKey::Unicode('\u{0017}')
                } else if modifiers.is_caps() {
                    DecodedKey::Unicode('W')
                } else {
                    DecodedKey::Unicode('w')
                }
            }
            KeyCode::E => {
                if map_to_unicode && modifiers.is_ctrl() {
                    DecodedKey::Unicode('\u{0005}')
                } else if modifiers.is_caps() {
                    DecodedKey::Unicode('E')
                } else {
                    DecodedKey::Unicode('e')
                }
            }
            KeyCode::R => {
                if map_to_unicode && modifiers.is_ctrl() {
                    DecodedKey::Unicode('\u{0012}')
                } else if modifiers.is_caps() {
                    DecodedKey::Unicode('R')
                } else {
                    DecodedKey::Unicode('r')
                }
            }
            KeyCode::T => {
                if map_to_unicode && modifiers.is_ctrl() {
                    DecodedKey::Unicode('\u{0014}')
                } else if modifiers.is_caps() {
                    DecodedKey::Unicode('T')
                } else {
                    DecodedKey::Unicode('t')
                }
            }
            KeyCode::Y => {
                if map_to_unicode && modifiers.is_ctrl() {
                    DecodedKey::Unicode('\u{0019}')
                } else if modifiers.is_caps() {
                    DecodedKey::Unicode('Y')
                } else {
                    DecodedKey::Unicode('y')
                }
            }
            KeyCode::U => {
                if map_to_unicode && modifiers.is_ctrl() {
                    DecodedKey::Unicode('\u{0015}')
                } else if modifiers.is_caps() {
                    DecodedKey::Unicode('U')
                } else {
                    DecodedKey::Unicode('u')
                }
            }
            KeyCode::I => {
                if map_to_unicode && modifiers.is_ctrl() {
                    DecodedKey::Unicode('\u{0009}')
                } else if modifiers.is_caps() {
                    DecodedKey::Unicode('I')
                } else {
                    DecodedKey::Unicode('i')
                }
            }
            KeyCode::O => {
                if map_to_unicode && modifiers.is_ctrl() {
                    DecodedKey::Unicode('\u{000F}')
                } else if modifiers.is_caps() {
                    DecodedKey::Unicode('O')
                } else {
                    DecodedKey::Unicode('o')
                }
            }
            KeyCode::P => {
                if map_to_unicode && modifiers.is_ctrl() {
                    DecodedKey::Unicode('\u{0010}')
                } else if modifiers.is_caps() {
                    DecodedKey::Unicode('P')
                } else {
                    DecodedKey::Unicode('p')
                }
            }
            KeyCode::Oem4 => {
                if modifiers.is_shifted() {
                    DecodedKey::Unicode('{')
                } else {
                    DecodedKey::Unicode('[')
                }
            }
            KeyCode::Oem6 => {
                if modifiers.is_shifted() {
                    DecodedKey::Unicode('}')
                } else {
                    DecodedKey::Unicode(']')
                }
            }
            KeyCode::Oem7 => {
                if modifiers.is_shifted() {
                    DecodedKey::Unicode('|')
                } else {
                    DecodedKey::Unicode('\\')
                }
            }
            KeyCode::A => {
                if map_to_unicode && modifiers.is_ctrl() {
                    DecodedKey::Unicode('\u{0001}')
                } else if modifiers.is_caps() {
                    DecodedKey::Unicode('A')
                } else {
                    DecodedKey::Unicode('a')
                }
            }
            KeyCode::S => {
                if map_to_unicode && modifiers.is_ctrl() {
                    DecodedKey::Unicode('\u{0013}')
                } else if modifiers.is_caps() {
                    DecodedKey::Unicode('S')
                } else {
                    DecodedKey::Unicode('s')
                }
            }
            KeyCode::D => {
                if map_to_unicode && modifiers.is_ctrl() {
                    DecodedKey::Unicode('\u{0004}')
                } else if modifiers.is_caps() {
                    DecodedKey::Unicode('D')
                } else {
                    DecodedKey::Unicode('d')
                }
            }
            KeyCode::F => {
                if map_to_unicode && modifiers.is_ctrl() {
                    DecodedKey::Unicode('\u{0006}')
                } else if modifiers.is_caps() {
                    DecodedKey::Unicode('F')
                } else {
                    DecodedKey::Unicode('f')
                }
            }
            KeyCode::G => {
                if map_to_unicode && modifiers.is_ctrl() {
                    DecodedKey::Unicode('\u{0007}')
                } else if modifiers.is_caps() {
                    DecodedKey::Unicode('G')
                } else {
                    DecodedKey::Unicode('g')
                }
            }
            KeyCode::H => {
                if map_to_unicode && modifiers.is_ctrl() {
                    DecodedKey::Unicode('\u{0008}')
                } else if modifiers.is_caps() {
                    DecodedKey::Unicode('H')
                } else {
                    DecodedKey::Unicode('h')
                }
            }
            KeyCode::J => {
                if map_to_unicode && modifiers.is_ctrl() {
                    DecodedKey::Unicode('\u{000A}')
                } else if modifiers.is_caps() {
                    DecodedKey::Unicode('J')
                } else {
                    DecodedKey::Unicode('j')
                }
            }
            KeyCode::K => {
                if map_to_unicode && modifiers.is_ctrl() {
                    DecodedKey::Unicode('\u{000B}')
                } else if modifiers.is_caps() {
                    DecodedKey::Unicode('K')
                } else {
                    DecodedKey::Unicode('k')
                }
            }
            KeyCode::L => {
                if map_to_unicode && modifiers.is_ctrl() {
                    DecodedKey::Unicode('\u{000C}')
                } else if modifiers.is_caps() {
                    DecodedKey::Unicode('L')
                } else {
                    DecodedKey::Unicode('l')
                }
            }
            KeyCode::Oem1 => {
                if modifiers.is_shifted() {
                    DecodedKey::Unicode(':')
                } else {
                    DecodedKey::Unicode(';')
                }
            }
            KeyCode::Oem3 => {
                if modifiers.is_shifted() {
                    DecodedKey::Unicode('"')
                } else {
                    DecodedKey::Unicode('\'')
                }
            }
            // Enter gives LF, not CRLF or CR
            KeyCode::Return => DecodedKey::Unicode(10.into()),
            KeyCode::Z => {
                if map_to_unicode && modifiers.is_ctrl() {
                    DecodedKey::Unicode('\u{001A}')
                } else if modifiers.is_caps() {
                    DecodedKey::Unicode('Z')
                } else {
                    DecodedKey::Unicode('z')
                }
            }
            KeyCode::X => {
                if map_to_unicode && modifiers.is_ctrl() {
                    DecodedKey::Unicode('\u{0018}')
                } else if modifiers.is_caps() {
                    DecodedKey::Unicode('X')
                } else {
                    DecodedKey::Unicode('x')
                }
            }
            KeyCode::C => {
                if map_to_unicode && modifiers.is_ctrl() {
                    DecodedKey::Unicode('\u{0003}')
                } else if modifiers.is_caps() {
                    DecodedKey::Unicode('C')
                } else {
                    DecodedKey::Unicode('c')
                }
            }
            KeyCode::V => {
                if map_to_unicode && modifiers.is_ctrl() {
                    DecodedKey::Unicode('\u{0016}')
                } else if modifiers.is_caps() {
                    DecodedKey::Unicode('V')
                } else {
                    DecodedKey::Unicode('v')
                }
            }
            KeyCode::B => {
                if map_to_unicode && modifiers.is_ctrl() {
                    DecodedKey::Unicode('\u{0002}')
                } else if modifiers.is_caps() {
                    DecodedKey::Unicode('B')
                } else {
                    DecodedKey::Unicode('b')
                }
            }
            KeyCode::N => {
                if map_to_unicode && modifiers.is_ctrl() {
                    DecodedKey::Unicode('\u{000E}')
                } else if modifiers.is_caps() {
                    DecodedKey::Unicode('N')
                } else {
                    DecodedKey::Unicode('n')
                }
            }
            KeyCode::M => {
                if map_to_unicode && modifiers.is_ctrl() {
                    DecodedKey::Unicode('\u{000D}')
                } else if modifiers.is_caps() {
                    DecodedKey::Unicode('M')
                } else {
                    DecodedKey::Unicode('m')
                }
            }
            KeyCode::OemComma => {
                if modifiers.is_shifted() {
                    DecodedKey::Unicode('<')
                } else {
                    DecodedKey::Unicode(',')
                }
            }
            KeyCode::OemPeriod => {
                if modifiers.is_shifted() {
                    DecodedKey::Unicode('>')
                } else {
                    DecodedKey::Unicode('.')
                }
            }
            KeyCode::Oem2 => {
                if modifiers.is_shifted() {
                    DecodedKey::Unicode('?')
                } else {
                    DecodedKey::Unicode('/')
                }
            }
            KeyCode::Spacebar => DecodedKey::Unicode(' '),
            KeyCode::Delete => DecodedKey::Unicode(127.into()),
            KeyCode::NumpadDivide => DecodedKey::Unicode('/'),
            KeyCode::NumpadMultiply => DecodedKey::Unicode('*'),
            KeyCode::NumpadSubtract => DecodedKey::Unicode('-'),
            KeyCode::Numpad7 => {
                if modifiers.numlock {
                    DecodedKey::Unicode('7')
                } else {
                    DecodedKey::RawKey(KeyCode::Home)
                }
            }
            KeyCode::Numpad8 => {
                if modifiers.numlock {
                    DecodedKey::Unicode('8')
                } else {
                    DecodedKey::RawKey(KeyCode::ArrowUp)
                }
            }
            KeyCode::Numpad9 => {
                if modifiers.numlock {
                    DecodedKey::Unicode('9')
                } else {
                    DecodedKey::RawKey(KeyCode::PageUp)
                }
            }
            KeyCode::NumpadAdd => DecodedKey::Unicode('+'),
            KeyCode::Numpad4 => {
                if modifiers.numlock {
                    DecodedKey::Unicode('4')
                } else {
                    DecodedKey::RawKey(KeyCode::ArrowLeft)
                }
            }
            KeyCode::Numpad5 => DecodedKey::Unicode('5'),
            KeyCode::Numpad6 => {
                if modifiers.numlock {
                    DecodedKey::Unicode('6')
                } else {
                    DecodedKey::RawKey(KeyCode::ArrowRight)
                }
            }
            KeyCode::Numpad1 => {
                if modifiers.numlock {
                    DecodedKey::Unicode('1')
                } else {
                    DecodedKey::RawKey(KeyCode::End)
                }
            }
            KeyCode::Numpad2 => {
                if modifiers.numlock {
                    DecodedKey::Unicode('2')
                } else {
                    DecodedKey::RawKey(KeyCode::ArrowDown)
                }
            }
            KeyCode::Numpad3 => {
                if modifiers.numlock {
                    DecodedKey::Unicode('3')
                } else {
                    DecodedKey::RawKey(KeyCode::PageDown)
                }
            }
            KeyCode::Numpad0 => {
                if modifiers.numlock {
                    DecodedKey::Unicode('0')
                } else {
                    DecodedKey::RawKey(KeyCode::Insert)
                }
            }
            KeyCode::NumpadPeriod => {
                if modifiers.numlock {
                    DecodedKey::Unicode('.')
                } else {
                    DecodedKey::Unicode(127.into())
                }
            }
            KeyCode::NumpadEnter => DecodedKey::Unicode(10.into()),
            k => DecodedKey::RawKey(k),
        }
    }
}

#[cfg(test)]
mod test {
    use super::*;
    use crate::{EventDecoder, ScancodeSet, ScancodeSet1};

    #[test]
    fn layout() {
        // Codes taken from https://kbdlayout.info/kbdus/overview+scancodes?arrangement=ANSI104
        let mut s = ScancodeSet1::new();
        let mut dec = EventDecoder::new(Us104Key, HandleControl::Ignore);
        let data = [
            (0x29, '`'),
            (0x02, '1'),
            (0x03, '2'),
            (0x04, '3'),
            (0x05, '4'),
            (0x06, '5'),
            (0x07, '6'),
            (0x08, '7'),
            (0x09, '8'),
            (0x0a, '9'),
            (0x0b, '0'),
            (0x0c, '-'),
            (0x0d, '='),
            (0x0f, '\t'),
            (0x10, 'q'),
            (0x11, 'w'),
            (0x12, 'e'),
            (0x13, 'r'),
            (0x14, 't'),
            (0x15, 'y'),
            (0x16, 'u'),
            (0x17, 'i'),
            (0x18, 'o'),
            (0x19, 'p'),
            (0x1a, '['),
            (0x1b, ']'),
            (0x2b, '\\'),
            (0x1e, 'a'),
            (0x1f, 's'),
            (0x20, 'd'),
            (0x21, 'f'),
            (0x22, 'g'),
            (0x23, 'h'),
            (0x24, 'j'),
            (0x25, 'k'),
            (0x26, 'l'),
            (0x27, ';'),
            (0x28, '\''),
            (0x1c, '\n'),
            (0x2c, 'z'),
            (0x2d, 'x'),
            (0x2e, 'c'),
            (0x2f, 'v'),
            (0x30, 'b'),
            (0x31, 'n'),
            (0x32, 'm'),
            (0x33, ','),
            (0x34, '.'),
            (0x35, '/'),
        ];
        for (code, unicode) in data {
            let ev = s.advance_state(code).unwrap().unwrap();
            assert_eq!(Some(DecodedKey::Unicode(unicode)), dec.process_keyevent(ev));
        }
    }
}
