//! Finnish/Swedish keyboard support

use crate::{DecodedKey, HandleControl, KeyCode, KeyboardLayout, Modifiers};

/// A standard Finnish/Swedish 102-key (or 105-key including Windows keys) keyboard.
///
/// Has a 2-row high Enter key, with Oem5 next to the left shift (ISO format).
pub struct FiSe105Key;

impl KeyboardLayout for FiSe105Key {
    fn map_keycode(
        &self,
        keycode: KeyCode,
        modifiers: &Modifiers,
        handle_ctrl: HandleControl,
    ) -> DecodedKey {
        let map_to_unicode = handle_ctrl == HandleControl::MapLettersToUnicode;
        let fallback = super::Us104Key;
        match keycode {
            // ========= Row 2 (the numbers) =========
            KeyCode::Oem8 => {
                if modifiers.is_shifted() {
                    DecodedKey::Unicode('½')
                } else {
                    DecodedKey::Unicode('§')
                }
            }
            KeyCode::Key2 => {
                if modifiers.is_shifted() {
                    DecodedKey::Unicode('"')
                } else if modifiers.is_altgr() {
                    DecodedKey::Unicode('@')
                } else {
                    DecodedKey::Unicode('2')
                }
            }
            KeyCode::Key3 => {
                if modifiers.is_shifted() {
                    DecodedKey::Unicode('#')
                } else if modifiers.is_altgr() {
                    DecodedKey::Unicode('£')
                } else {
                    DecodedKey::Unicode('3')
                }
            }
            KeyCode::Key4 => {
                if modifiers.is_shifted() {
                    DecodedKey::Unicode('¤')
                } else if modifiers.is_altgr() {
                    DecodedKey::Unicode('$')
                } else {
                    DecodedKey::Unicode('4')
                }
            }
            KeyCode::Key5 => {
                if modifiers.is_shifted() {
                    DecodedKey::Unicode('%')
                } else if modifiers.is_altgr() {
                    DecodedKey::Unicode('€')
                } else {
                    DecodedKey::Unicode('5')
                }
            }
            KeyCode::Key6 => {
                if modifiers.is_shifted() {
                    DecodedKey::Unicode('&')
                } else {
                    DecodedKey::Unicode('6')
                }
            }
            KeyCode::Key7 => {
                if modifiers.is_shifted() {
                    DecodedKey::Unicode('/')
                } else if modifiers.is_altgr() {
                    DecodedKey::Unicode('{')
                } else {
                    DecodedKey::Unicode('7')
                }
            }
            KeyCode::Key8 => {
                if modifiers.is_shifted() {
                    DecodedKey::Unicode('(')
                } else if modifiers.is_altgr() {
                    DecodedKey::Unicode('[')
                } else {
                    DecodedKey::Unicode('8')
                }
            }
            KeyCode::Key9 => {
                if modifiers.is_shifted() {
                    DecodedKey::Unicode(')')
                } else if modifiers.is_altgr() {
                    DecodedKey::Unicode(']')
                } else {
                    DecodedKey::Unicode('9')
                }
            }
            KeyCode::Key0 => {
                if modifiers.is_shifted() {
                    DecodedKey::Unicode('=')
                } else if modifiers.is_altgr() {
                    DecodedKey::Unicode('}')
                } else {
                    DecodedKey::Unicode('0')
                }
            }
            KeyCode::OemMinus => {
                if modifiers.is_shifted() {
                    DecodedKey::Unicode('?')
                } else if modifiers.is_altgr() {
                    DecodedKey::Unicode('\\')
                } else {
                    DecodedKey::Unicode('+')
                }
            }
            KeyCode::OemPlus => {
                if modifiers.is_shifted() {
                    DecodedKey::Unicode('`')
                } else {
                    DecodedKey::Unicode('´')
                }
            }
            // ========= Row 3 (QWERTY) =========
            KeyCode::E => {
                if map_to_unicode && modifiers.is_ctrl() {
                    DecodedKey::Unicode('\u{0005}')
                } else if modifiers.is_altgr() {
                    DecodedKey::Unicode('€')
                } else if modifiers.is_caps() {
                    DecodedKey::Unicode('E')
                } else {
                    DecodedKey::Unicode('e')
                }
            }
            KeyCode::Oem4 => {
                if modifiers.is_caps() {
                    DecodedKey::Unicode('Å')
                } else {
                    DecodedKey::Unicode('å')
                }
            }
            KeyCode::Oem6 => {
                if modifiers.is_shifted() {
                    DecodedKey::Unicode('^')
                } else if modifiers.is_altgr() {
                    DecodedKey::Unicode('~')
                } else {
                    DecodedKey::Unicode('¨')
                }
            }
            // ========= Row 4 (ASDF) =========
            KeyCode::Oem1 => {
                if modifiers.is_caps() {
                    DecodedKey::Unicode('Ö')
                } else {
                    DecodedKey::Unicode('ö')
                }
            }
            KeyCode::Oem3 => {
                if modifiers.is_caps() {
                    DecodedKey::Unicode('Ä')
                } else {
                    DecodedKey::Unicode('ä')
                }
            }
            KeyCode::Oem7 => {
                if modifiers.is_shifted() {
                    DecodedKey::Unicode('*')
                } else {
                    DecodedKey::Unicode('\'')
                }
            }
            // ========= Row 5 (ZXCV) =========
            KeyCode::Oem5 => {
                if modifiers.is_shifted() {
                    DecodedKey::Unicode('>')
                } else if modifiers.is_altgr() {
                    DecodedKey::Unicode('|')
                } else {
                    DecodedKey::Unicode('<')
                }
            }
            KeyCode::M => {
                if map_to_unicode && modifiers.is_ctrl() {
                    DecodedKey::Unicode('\u{000D}')
                } else if modifiers.is_altgr() {
                    DecodedKey::Unicode('µ')
                } else if modifiers.is_caps() {
                    DecodedKey::Unicode('M')
                } else {
                    DecodedKey::Unicode('m')
                }
            }
            KeyCode::OemComma => {
                if modifiers.is_shifted() {
                    DecodedKey::Unicode(';')
                } else {
                    DecodedKey::Unicode(',')
                }
            }
            KeyCode::OemPeriod => {
                if modifiers.is_shifted() {
                    DecodedKey::Unicode(':')
                } else {
                    DecodedKey::Unicode('.')
                }
            }
            KeyCode::Oem2 => {
                if modifiers.is_shifted() {
                    DecodedKey::Unicode('_')
                } else {
                    DecodedKey::Unicode('-')
                }
            }
            // ========= Row 6 (modifers and space bar) =========
            KeyCode::NumpadPeriod => {
                if modifiers.numlock {
                    DecodedKey::Unicode(',')
                } else {
                    fallback.map_keycode(keycode, modifiers, handle_ctrl)
                }
            }
            e => fallback.map_keycode(e, modifiers, handle_ctrl),
        }
    }
}
