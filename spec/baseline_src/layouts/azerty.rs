//! French keyboard support

use crate::{DecodedKey, HandleControl, KeyCode, KeyboardLayout, Modifiers};

/// A standard French 102-key (or 105-key including Windows keys) keyboard.
///
/// The top row spells `AZERTY`.
///
/// Has a 2-row high Enter key, with Oem5 next to the left shift (ISO format).
///
/// NB: no "dead key" support for now
pub struct Azerty;

impl KeyboardLayout for Azerty {
    fn map_keycode(
        &self,
        keycode: KeyCode,
        modifiers: &Modifiers,
        handle_ctrl: HandleControl,
    ) -> DecodedKey {
        let map_to_unicode = handle_ctrl == HandleControl::MapLettersToUnicode;
        match keycode {
            KeyCode::Escape => DecodedKey::Unicode(0x1B.into()),
            KeyCode::Oem8 => DecodedKey::Unicode('²'),
            KeyCode::Oem5 => {
                if modifiers.is_shifted() {
                    DecodedKey::Unicode('>')
                } else {
                    DecodedKey::Unicode('<')
                }
            }
            KeyCode::Key1 => {
                if modifiers.is_shifted() {
                    DecodedKey::Unicode('1')
                } else {
                    DecodedKey::Unicode('&')
                }
            }
            KeyCode::Key2 => {
                if modifiers.is_shifted() {
                    DecodedKey::Unicode('2')
                } else if modifiers.is_altgr() {
                    DecodedKey::Unicode('~')
                } else {
                    DecodedKey::Unicode('é')
                }
            }
            KeyCode::Key3 => {
                if modifiers.is_shifted() {
                    DecodedKey::Unicode('3')
                } else if modifiers.is_altgr() {
                    DecodedKey::Unicode('#')
                } else {
                    DecodedKey::Unicode('"')
                }
            }
            KeyCode::Key4 => {
                if modifiers.is_shifted() {
                    DecodedKey::Unicode('4')
                } else if modifiers.is_altgr() {
                    DecodedKey::Unicode('{')
                } else {
                    DecodedKey::Unicode('\'')
                }
            }
            KeyCode::Key5 => {
                if modifiers.is_shifted() {
                    DecodedKey::Unicode('5')
                } else if modifiers.is_altgr() {
                    DecodedKey::Unicode('[')
                } else {
                    DecodedKey::Unicode('(')
                }
            }
            KeyCode::Key6 => {
                if modifiers.is_shifted() {
                    DecodedKey::Unicode('6')
                } else if modifiers.is_altgr() {
                    DecodedKey::Unicode('|')
                } else {
                    DecodedKey::Unicode('-')
                }
            }
            KeyCode::Key7 => {
                if modifiers.is_shifted() {
                    DecodedKey::Unicode('7')
                } else if modifiers.is_altgr() {
                    DecodedKey::Unicode('`')
                } else {
                    DecodedKey::Unicode('è')
                }
            }
            KeyCode::Key8 => {
                if modifiers.is_shifted() {
                    DecodedKey::Unicode('8')
                } else if modifiers.is_altgr() {
                    DecodedKey::Unicode('\\')
                } else {
                    DecodedKey::Unicode('_')
                }
            }
            KeyCode::Key9 => {
                if modifiers.is_shifted() {
                    DecodedKey::Unicode('9')
                } else if modifiers.is_altgr() {
                    DecodedKey::Unicode('^')
                } else {
                    DecodedKey::Unicode('ç')
                }
            }
            KeyCode::Key0 => {
                if modifiers.is_shifted() {
                    DecodedKey::Unicode('0')
                } else if modifiers.is_altgr() {
                    DecodedKey::Unicode('@')
                } else {
                    DecodedKey::Unicode('à')
                }
            }
            KeyCode::OemMinus => {
                if modifiers.is_shifted() {
                    DecodedKey::Unicode('°')
                } else if modifiers.is_altgr() {
                    DecodedKey::Unicode(']')
                } else {
                    DecodedKey::Unicode(')')
                }
            }
            KeyCode::OemPlus => {
                if modifiers.is_shifted() {
                    DecodedKey::Unicode('+')
                } else if modifiers.is_altgr() {
                    DecodedKey::Unicode('}')
                } else {
                    DecodedKey::Unicode('=')
                }
            }
            KeyCode::Backspace => DecodedKey::Unicode(0x08.into()),
            KeyCode::Tab => DecodedKey::Unicode(0x09.into()),
            KeyCode::Q => {
                if map_to_unicode && modifiers.is_ctrl() {
                    DecodedKey::Unicode('\u{0001}')
                } else if modifiers.is_caps() {
                    DecodedKey::Unicode('A')
                } else {
                    DecodedKey::Unicode('a')
                }
            }
            KeyCode::W => {
                if map_to_unicode && modifiers.is_ctrl() {
                    DecodedKey::Unicode('\u{001A}')
                } else if modifiers.is_caps() {
                    DecodedKey::Unicode('Z')
                } else {
                    DecodedKey::Unicode('z')
                }
            }
            KeyCode::E => {
                if map_to_unicode && modifiers.is_ctrl() {
                    DecodedKey::Unicode('\u{0005}')
                } else if modifiers.is_caps() {
                    DecodedKey::Unicode('E')
                } else {
                    DecodedKey::Unicode('e')
                }
            }
            KeyCode::R => {
                if map_to_unicode && modifiers.is_ctrl() {
                    DecodedKey::Unicode('\u{0012}')
                } else if modifiers.is_caps() {
                    DecodedKey::Unicode('R')
                } else {
                    DecodedKey::Unicode('r')
                }
            }
            KeyCode::T => {
                if map_to_unicode && modifiers.is_ctrl() {
                    DecodedKey::Unicode('\u{0014}')
                } else if modifiers.is_caps() {
                    DecodedKey::Unicode('T')
                } else {
                    DecodedKey::Unicode('t')
                }
            }
            KeyCode::Y => {
                if map_to_unicode && modifiers.is_ctrl() {
                    DecodedKey::Unicode('\u{0019}')
                } else if modifiers.is_caps() {
                    DecodedKey::Unicode('Y')
                } else {
                    DecodedKey::Unicode('y')
                }
            }
            KeyCode::U => {
                if map_to_unicode && modifiers.is_ctrl() {
                    DecodedKey::Unicode('\u{0015}')
                } else if modifiers.is_caps() {
                    DecodedKey::Unicode('U')
                } else {
                    DecodedKey::Unicode('u')
                }
            }
            KeyCode::I => {
                if map_to_unicode && modifiers.is_ctrl() {
                    DecodedKey::Unicode('\u{0009}')
                } else if modifiers.is_caps() {
                    DecodedKey::Unicode('I')
                } else {
                    DecodedKey::Unicode('i')
                }
            }
            KeyCode::O => {
                if map_to_unicode && modifiers.is_ctrl() {
                    DecodedKey::Unicode('\u{000F}')
                } else if modifiers.is_caps() {
                    DecodedKey::Unicode('O')
                } else {
                    DecodedKey::Unicode('o')
                }
            }
            KeyCode::P => {
                if map_to_unicode && modifiers.is_ctrl() {
                    DecodedKey::Unicode('\u{0010}')
                } else if modifiers.is_caps() {
                    DecodedKey::Unicode('P')
                } else {
                    DecodedKey::Unicode('p')
                }
            }
            KeyCode::Oem4 => {
                if modifiers.is_shifted() {
                    DecodedKey::Unicode('¨')
                } else if modifiers.is_altgr() {
                    DecodedKey::Unicode('ˇ')
                } else {
                    DecodedKey::Unicode('^')
                }
            }
            KeyCode::Oem6 => {
                if modifiers.is_shifted() {
                    DecodedKey::Unicode('£')
                } else if modifiers.is_altgr() {
                    DecodedKey::Unicode('¤')
                } else {
                    DecodedKey::Unicode('$')
                }
            }
            KeyCode::Oem7 => {
                if modifiers.is_shifted() {
                    DecodedKey::Unicode('µ')
                } else {
                    DecodedKey::Unicode('*')
                }
            }
            KeyCode::A => {
                if map_to_unicode && modifiers.is_ctrl() {
                    DecodedKey::Unicode('\u{0011}')
                } else if modifiers.is_caps() {
                    DecodedKey::Unicode('Q')
                } else {
                    DecodedKey::Unicode('q')
                }
            }
            KeyCode::S => {
                if map_to_unicode && modifiers.is_ctrl() {
                    DecodedKey::Unicode('\u{0013}')
                } else if modifiers.is_caps() {
                    DecodedKey::Unicode('S')
                } else {
                    DecodedKey::Unicode('s')
                }
            }
            KeyCode::D => {
                if map_to_unicode && modifiers.is_ctrl() {
                    DecodedKey::Unicode('\u{0004}')
                } else if modifiers.is_caps() {
                    DecodedKey::Unicode('D')
                } else {
                    DecodedKey::Unicode('d')
                }
            }
            KeyCode::F => {
                if map_to_unicode && modifiers.is_ctrl() {
                    DecodedKey::Unicode('\u{0006}')
                } else if modifiers.is_caps() {
                    DecodedKey::Unicode('F')
                } else {
                    DecodedKey::Unicode('f')
                }
            }
            KeyCode::G => {
                if map_to_unicode && modifiers.is_ctrl() {
                    DecodedKey::Unicode('\u{0007}')
                } else if modifiers.is_caps() {
                    DecodedKey::Unicode('G')
                } else {
                    DecodedKey::Unicode('g')
                }
            }
            KeyCode::H => {
                if map_to_unicode && modifiers.is_ctrl() {
                    DecodedKey::Unicode('\u{0008}')
                } else if modifiers.is_caps() {
                    DecodedKey::Unicode('H')
                } else {
                    DecodedKey::Unicode('h')
                }
            }
            KeyCode::J => {
                if map_to_unicode && modifiers.is_ctrl() {
                    DecodedKey::Unicode('\u{000A}')
                } else if modifiers.is_caps() {
                    DecodedKey::Unicode('J')
                } else {
                    DecodedKey::Unicode('j')
                }
            }
            KeyCode::K => {
                if map_to_unicode && modifiers.is_ctrl() {
                    DecodedKey::Unicode('\u{000B}')
                } else if modifiers.is_caps() {
                    DecodedKey::Unicode('K')
                } else {
                    DecodedKey::Unicode('k')
                }
            }
            KeyCode::L => {
                if map_to_unicode && modifiers.is_ctrl() {
                    DecodedKey::Unicode('\u{000C}')
                } else if modifiers.is_caps() {
                    DecodedKey::Unicode('L')
                } else {
                    DecodedKey::Unicode('l')
                }
            }
            KeyCode::Oem1 => {
                if map_to_unicode && modifiers.is_ctrl() {
                    DecodedKey::Unicode('\u{000D}')
                } else if modifiers.is_caps() {
                    DecodedKey::Unicode('M')
                } else {
                    DecodedKey::Unicode('m')
                }
            }
            KeyCode::Oem3 => {
                if modifiers.is_shifted() {
                    DecodedKey::Unicode('%')
                } else {
                    DecodedKey::Unicode('ù')
                }
            }
            // Enter gives LF, not CRLF or CR
            KeyCode::Return => DecodedKey::Unicode(10.into()),
            KeyCode::Z => {
                if map_to_unicode && modifiers.is_ctrl() {
                    DecodedKey::Unicode('\u{0017}')
                } else if modifiers.is_caps() {
                    DecodedKey::Unicode('W')
                } else {
                    DecodedKey::Unicode('w')
                }
            }
            KeyCode::X => {
                if map_to_unicode && modifiers.is_ctrl() {
                    DecodedKey::Unicode('\u{0018}')
                } else if modifiers.is_caps() {
                    DecodedKey::Unicode('X')
                } else {
                    DecodedKey::Unicode('x')
                }
            }
            KeyCode::C => {
                if map_to_unicode && modifiers.is_ctrl() {
                    DecodedKey::Unicode('\u{0003}')
                } else if modifiers.is_caps() {
                    DecodedKey::Unicode('C')
                } else {
                    DecodedKey::Unicode('c')
                }
            }
            KeyCode::V => {
                if map_to_unicode && modifiers.is_ctrl() {
                    DecodedKey::Unicode('\u{0016}')
                } else if modifiers.is_caps() {
                    DecodedKey::Unicode('V')
                } else {
                    DecodedKey::Unicode('v')
                }
            }
            KeyCode::B => {
                if map_to_unicode && modifiers.is_ctrl() {
                    DecodedKey::Unicode('\u{0002}')
                } else if modifiers.is_caps() {
                    DecodedKey::Unicode('B')
                } else {
                    DecodedKey::Unicode('b')
                }
            }
            KeyCode::N => {
                if map_to_unicode && modifiers.is_ctrl() {
                    DecodedKey::Unicode('\u{000E}')
                } else if modifiers.is_caps() {
                    DecodedKey::Unicode('N')
                } else {
                    DecodedKey::Unicode('n')
                }
            }
            KeyCode::M => {
                if modifiers.is_shifted() {
                    DecodedKey::Unicode('?')
                } else {
                    DecodedKey::Unicode(',')
                }
            }
            KeyCode::OemComma => {
                if modifiers.is_shifted() {
                    DecodedKey::Unicode('.')
                } else {
                    DecodedKey::Unicode(';')
                }
            }
            KeyCode::OemPeriod => {
                if modifiers.is_shifted() {
                    DecodedKey::Unicode('/')
                } else {
                    DecodedKey::Unicode(':')
                }
            }
            KeyCode::Oem2 => {
                if modifiers.is_shifted() {
                    DecodedKey::Unicode('§')
                } else {
                    DecodedKey::Unicode('!')
                }
            }
            KeyCode::Spacebar => DecodedKey::Unicode(' '),
            KeyCode::Delete => DecodedKey::Unicode(127.into()),
            KeyCode::NumpadDivide => DecodedKey::Unicode('/'),
            KeyCode::NumpadMultiply => DecodedKey::Unicode('*'),
            KeyCode::NumpadSubtract => DecodedKey::Unicode('-'),
            KeyCode::Numpad7 => {
                if modifiers.numlock {
                    DecodedKey::Unicode('7')
                } else {
                    DecodedKey::RawKey(KeyCode::Home)
                }
            }
            KeyCode::Numpad8 => {
                if modifiers.numlock {
                    DecodedKey::Unicode('8')
                } else {
                    DecodedKey::RawKey(KeyCode::ArrowUp)
                }
            }
            KeyCode::Numpad9 => {
                if modifiers.numlock {
                    DecodedKey::Unicode('9')
                } else {
                    DecodedKey::RawKey(KeyCode::PageUp)
                }
            }
            KeyCode::NumpadAdd => DecodedKey::Unicode('+'),
            KeyCode::Numpad4 => {
                if modifiers.numlock {
                    DecodedKey::Unicode('4')
                } else {
                    DecodedKey::RawKey(KeyCode::ArrowLeft)
                }
            }
            KeyCode::Numpad5 => DecodedKey::Unicode('5'),
            KeyCode::Numpad6 => {
                if modifiers.numlock {
                    DecodedKey::Unicode('6')
                } else {
                    DecodedKey::RawKey(KeyCode::ArrowRight)
                }
            }
            KeyCode::Numpad1 => {
                if modifiers.numlock {
                    DecodedKey::Unicode('1')
                } else {
                    DecodedKey::RawKey(KeyCode::End)
                }
            }
            KeyCode::Numpad2 => {
                if modifiers.numlock {
                    DecodedKey::Unicode('2')
                } else {
                    DecodedKey::RawKey(KeyCode::ArrowDown)
                }
            }
            KeyCode::Numpad3 => {
                if modifiers.numlock {
                    DecodedKey::Unicode('3')
                } else {
                    DecodedKey::RawKey(KeyCode::PageDown)
                }
            }
            KeyCode::Numpad0 => {
                if modifiers.numlock {
                    DecodedKey::Unicode('0')
                } else {
                    DecodedKey::RawKey(KeyCode::Insert)
                }
            }
            KeyCode::NumpadPeriod => {
                if modifiers.numlock {
                    DecodedKey::Unicode('.')
                } else {
                    DecodedKey::Unicode(127.into())
                }
            }
            KeyCode::NumpadEnter => DecodedKey::Unicode(10.into()),
            k => DecodedKey::RawKey(k),
        }
    }
}

#[cfg(test)]
mod test {
    use super::*;
    use crate::{KeyCode, KeyEvent, KeyState, Keyboard, ScancodeSet2};

    #[test]
    fn test_frazert() {
        let mut k = Keyboard::new(
            ScancodeSet2::new(),
            Azerty,
            HandleControl::MapLettersToUnicode,
        );
        assert_eq!(
            k.process_keyevent(KeyEvent::new(KeyCode::NumpadDivide, KeyState::Down)),
            Some(DecodedKey::Unicode('/'))
        );
        assert_eq!(
            k.process_keyevent(KeyEvent::new(KeyCode::NumpadMultiply, KeyState::Down)),
            Some(DecodedKey::Unicode('*'))
        );
        assert_eq!(
            k.process_keyevent(KeyEvent::new(KeyCode::A, KeyState::Down)),
            Some(DecodedKey::Unicode('q'))
        );
        assert_eq!(
            k.process_keyevent(KeyEvent::new(KeyCode::Key4, KeyState::Down)),
            Some(DecodedKey::Unicode('\''))
        );
        assert_eq!(
            k.process_keyevent(KeyEvent::new(KeyCode::Oem5, KeyState::Down)),
            Some(DecodedKey::Unicode('<'))
        );
        assert_eq!(
            k.process_keyevent(KeyEvent::new(KeyCode::Oem7, KeyState::Down)),
            Some(DecodedKey::Unicode('*'))
        );
        assert_eq!(
            k.process_keyevent(KeyEvent::new(KeyCode::Numpad0, KeyState::Up)),
            None
        );
        assert_eq!(
            k.process_keyevent(KeyEvent::new(KeyCode::NumpadLock, KeyState::Down)),
            Some(DecodedKey::RawKey(KeyCode::NumpadLock))
        );
        assert_eq!(
            k.process_keyevent(KeyEvent::new(KeyCode::NumpadLock, KeyState::Up)),
            None
        );
        assert_eq!(
            k.process_keyevent(KeyEvent::new(KeyCode::Numpad0, KeyState::Down)),
            Some(DecodedKey::RawKey(KeyCode::Insert))
        );
        assert_eq!(
            k.process_keyevent(KeyEvent::new(KeyCode::Numpad0, KeyState::Up)),
            None
        );
    }
}
