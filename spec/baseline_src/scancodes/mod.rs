//! A collection of Scancode implementations

mod set1;
mod set2;

pub use self::set1::ScancodeSet1;
pub use self::set2::ScancodeSet2;
