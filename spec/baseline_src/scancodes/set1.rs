//! Scan Code Set 1 support

use crate::{
    DecodeState, Error, KeyCode, KeyEvent, KeyState, ScancodeSet, EXTENDED2_KEY_CODE,
    EXTENDED_KEY_CODE,
};

/// Contains the implementation of Scancode Set 1.
///
/// See the OS dev wiki: <https://wiki.osdev.org/PS/2_Keyboard#Scan_Code_Set_1>
pub struct ScancodeSet1 {
    state: DecodeState,
}

impl ScancodeSet1 {
    /// Construct a new [`ScancodeSet1`] decoder.
    pub const fn new() -> ScancodeSet1 {
        ScancodeSet1 {
            state: DecodeState::Start,
        }
    }

    /// Implements the single byte codes for Set 1.
    fn map_scancode(code: u8) -> Result<KeyCode, Error> {
        match code {
            0x01 => Ok(KeyCode::Escape),
            0x02 => Ok(KeyCode::Key1),
            0x03 => Ok(KeyCode::Key2),
            0x04 => Ok(KeyCode::Key3),
            0x05 => Ok(KeyCode::Key4),
            0x06 => Ok(KeyCode::Key5),
            0x07 => Ok(KeyCode::Key6),
            0x08 => Ok(KeyCode::Key7),
            0x09 => Ok(KeyCode::Key8),
            0x0A => Ok(KeyCode::Key9),
            0x0B => Ok(KeyCode::Key0),
            0x0C => Ok(KeyCode::OemMinus),
            0x0D => Ok(KeyCode::OemPlus),
            0x0E => Ok(KeyCode::Backspace),
            0x0F => Ok(KeyCode::Tab),
            0x10 => Ok(KeyCode::Q),
            0x11 => Ok(KeyCode::W),
            0x12 => Ok(KeyCode::E),
            0x13 => Ok(KeyCode::R),
            0x14 => Ok(KeyCode::T),
            0x15 => Ok(KeyCode::Y),
            0x16 => Ok(KeyCode::U),
            0x17 => Ok(KeyCode::I),
            0x18 => Ok(KeyCode::O),
            0x19 => Ok(KeyCode::P),
            0x1A => Ok(KeyCode::Oem4),
            0x1B => Ok(KeyCode::Oem6),
            0x1C => Ok(KeyCode::Return),
            0x1D => Ok(KeyCode::LControl),
            0x1E => Ok(KeyCode::A),
            0x1F => Ok(KeyCode::S),
            0x20 => Ok(KeyCode::D),
            0x21 => Ok(KeyCode::F),
            0x22 => Ok(KeyCode::G),
            0x23 => Ok(KeyCode::H),
            0x24 => Ok(KeyCode::J),
            0x25 => Ok(KeyCode::K),
            0x26 => Ok(KeyCode::L),
            0x27 => Ok(KeyCode::Oem1),
            0x28 => Ok(KeyCode::Oem3),
            0x29 => Ok(KeyCode::Oem8),
            0x2A => Ok(KeyCode::LShift),
            0x2B => Ok(KeyCode::Oem7),
            0x2C => Ok(KeyCode::Z),
            0x2D => Ok(KeyCode::X),
            0x2E => Ok(KeyCode::C),
            0x2F => Ok(KeyCode::V),
            0x30 => Ok(KeyCode::B),
            0x31 => Ok(KeyCode::N),
            0x32 => Ok(KeyCode::M),
            0x33 => Ok(KeyCode::OemComma),
            0x34 => Ok(KeyCode::OemPeriod),
            0x35 => Ok(KeyCode::Oem2),
            0x36 => Ok(KeyCode::RShift),
            0x37 => Ok(KeyCode::NumpadMultiply),
            0x38 => Ok(KeyCode::LAlt),
            0x39 => Ok(KeyCode::Spacebar),
            0x3A => Ok(KeyCode::CapsLock),
            0x3B => Ok(KeyCode::F1),
            0x3C => Ok(KeyCode::F2),
            0x3D => Ok(KeyCode::F3),
            0x3E => Ok(KeyCode::F4),
            0x3F => Ok(KeyCode::F5),
            0x40 => Ok(KeyCode::F6),
            0x41 => Ok(KeyCode::F7),
            0x42 => Ok(KeyCode::F8),
            0x43 => Ok(KeyCode::F9),
            0x44 => Ok(KeyCode::F10),
            0x45 => Ok(KeyCode::NumpadLock),
            0x46 => Ok(KeyCode::ScrollLock),
            0x47 => Ok(KeyCode::Numpad7),
            0x48 => Ok(KeyCode::Numpad8),
            0x49 => Ok(KeyCode::Numpad9),
            0x4A => Ok(KeyCode::NumpadSubtract),
            0x4B => Ok(KeyCode::Numpad4),
            0x4C => Ok(KeyCode::Numpad5),
            0x4D => Ok(KeyCode::Numpad6),
            0x4E => Ok(KeyCode::NumpadAdd),
            0x4F => Ok(KeyCode::Numpad1),
            0x50 => Ok(KeyCode::Numpad2),
            0x51 => Ok(KeyCode::Numpad3),
            0x52 => Ok(KeyCode::Numpad0),
            0x53 => Ok(KeyCode::NumpadPeriod),
            0x54 => Ok(KeyCode::SysRq),
            // 0x55 is unused?
            0x56 => Ok(KeyCode::Oem5),
            0x57 => Ok(KeyCode::F11),
            0x58 => Ok(KeyCode::F12),
            _ => Err(Error::UnknownKeyCode),
        }
    }

    /// Implements the extended byte codes for set 1 (prefixed with E0)
    fn map_extended_scancode(code: u8) -> Result<KeyCode, Error> {
        match code {
            0x10 => Ok(KeyCode::PrevTrack),
            //0x11
            //0x12
            //0x13
            //0x14
            //0x15
            //0x16
            //0x17
            //0x18
            0x19 => Ok(KeyCode::NextTrack),
            //0x1A
            //0x1B
            0x1C => Ok(KeyCode::NumpadEnter),
            0x1D => Ok(KeyCode::RControl),
            //0x1E
            //0x1F
            0x20 => Ok(KeyCode::Mute),
            0x21 => Ok(KeyCode::Calculator),
            0x22 => Ok(KeyCode::Play),
            //0x23
            0x24 => Ok(KeyCode::Stop),
            //0x25
            //0x26
            //0x27
            //0x28
            //0x29
            0x2A => Ok(KeyCode::RAlt2),
            //0x2B
            //0x2C
            //0x2D
            0x2E => Ok(KeyCode::VolumeDown),
            //0x2F
            0x30 => Ok(KeyCode::VolumeUp),
            //0x31
            0x32 => Ok(KeyCode::WWWHome),
            //0x33
            //0x34
            0x35 => Ok(KeyCode::NumpadDivide),
            //0x36
            0x37 => Ok(KeyCode::PrintScreen),
            0x38 => Ok(KeyCode::RAltGr),
            //0x39
            //0x3A
            //0x3B
            //0x3C
            //0x3D
            //0x3E
            //0x3F
            //0x40
            //0x41
            //0x42
            //0x43
            //0x44
            //0x45
            //0x46
            0x47 => Ok(KeyCode::Home),
            0x48 => Ok(KeyCode::ArrowUp),
            0x49 => Ok(KeyCode::PageUp),
            //0x4A
            0x4B => Ok(KeyCode::ArrowLeft),
            //0x4C
            0x4D => Ok(KeyCode::ArrowRight),
            //0x4E
            0x4F => Ok(KeyCode::End),
            0x50 => Ok(KeyCode::ArrowDown),
            0x51 => Ok(KeyCode::PageDown),
            0x52 => Ok(KeyCode::Insert),
            0x53 => Ok(KeyCode::Delete),
            0x5B => Ok(KeyCode::LWin),
            0x5C => Ok(KeyCode::RWin),
            0x5D => Ok(KeyCode::Apps),
            // 0x5E ACPI Power
            // 0x5F ACPI Sleep
            // 0x60
            // 0x61
            // 0x62
            // 0x63 ACPI Wake
            // 0x64
            // 0x65 WWW Search
            // 0x66 WWW Favourites
            // 0x67 WWW Refresh
            // 0x68 WWW Stop
            // 0x69 WWW Forward
            // 0x6A WWW Back
            // 0x6B My Computer
            // 0x6C Email
            // 0x6D Media Select
            0x70 => Ok(KeyCode::Oem11),
            0x73 => Ok(KeyCode::Oem12),
            0x79 => Ok(KeyCode::Oem10),
            0x7B => Ok(KeyCode::Oem9),
            0x7D => Ok(KeyCode::Oem13),
            _ => Err(Error::UnknownKeyCode),
        }
    }

    /// Implements the extended byte codes for set 1 (prefixed with E1)
    fn map_extended2_scancode(code: u8) -> Result<KeyCode, Error> {
        match code {
            0x1D => Ok(KeyCode::RControl2),
            _ => Err(Error::UnknownKeyCode),
        }
    }
}

impl ScancodeSet for ScancodeSet1 {
    /// Implements state logic for scancode set 1
    ///
    /// ## Start:
    /// * `E0` => Goto Extended
    /// * `E1` => Goto Extended 2
    /// * `< 0x80` => Key Down
    /// * `>= 0x80` => Key Up
    ///
    /// ## Extended:
    /// * `< 0x80` => Extended Key Down
    /// * `>= 0x80` => Extended Key Up
    ///
    /// ## Extended 2:
    /// * `< 0x80` => Extended 2 Key Down
    /// * `>= 0x80` => Extended 2 Key Up
    fn advance_state(&mut self, code: u8) -> Result<Option<KeyEvent>, Error> {
        match self.state {
            DecodeState::Start => {
                match code {
                    EXTENDED_KEY_CODE => {
                        self.state = DecodeState::Extended;
                        Ok(None)
                    }
                    EXTENDED2_KEY_CODE => {
                        self.state = DecodeState::Extended2;
                        Ok(None)
                    }
                    0x80..=0xFF => {
                        // Break codes
                        Ok(Some(KeyEvent::new(
                            Self::map_scancode(code - 0x80)?,
                            KeyState::Up,
                        )))
                    }
                    _ => {
                        // Make codes
                        Ok(Some(KeyEvent::new(
                            Self::map_scancode(code)?,
                            KeyState::Down,
                        )))
                    }
                }
            }
            DecodeState::Extended => {
                self.state = DecodeState::Start;
                match code {
                    0x80..=0xFF => {
                        // Extended break codes
                        Ok(Some(KeyEvent::new(
                            Self::map_extended_scancode(code - 0x80)?,
                            KeyState::Up,
                        )))
                    }
                    _ => {
                        // Extended make codes
                        Ok(Some(KeyEvent::new(
                            Self::map_extended_scancode(code)?,
                            KeyState::Down,
                        )))
                    }
                }
            }
            DecodeState::Extended2 => {
                self.state = DecodeState::Start;
                match code {
                    0x80..=0xFF => {
                        // Extended 2 break codes
                        Ok(Some(KeyEvent::new(
                            Self::map_extended2_scancode(code - 0x80)?,
                            KeyState::Up,
                        )))
                    }
                    _ => {
                        // Extended 2 make codes
                        Ok(Some(KeyEvent::new(
                            Self::map_extended2_scancode(code)?,
                            KeyState::Down,
                        )))
                    }
                }
            }
            _ => {
                // Can't get in to this state
                unimplemented!();
            }
        }
    }
}

impl Default for ScancodeSet1 {
    fn default() -> Self {
        ScancodeSet1::new()
    }
}

#[cfg(test)]
mod test {
    use super::*;

    #[test]
    fn validate_scancodes() {
        let mut codes = Vec::new();
        let mut errs = Vec::new();
        for code in 0x00..=0x7F {
            let r = ScancodeSet1::map_scancode(code);
            match r {
                Ok(c) => codes.push(c),
                Err(_) => errs.push(code),
            }
        }
        codes.sort();
        println!("{:?}", codes);
        assert_eq!(codes.len(), 87);
        assert_eq!(errs.len(), 41);
    }
}
