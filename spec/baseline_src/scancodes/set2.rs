//! Scan Code Set 2 support

use crate::{
    DecodeState, Error, KeyCode, KeyEvent, KeyState, ScancodeSet, EXTENDED2_KEY_CODE,
    EXTENDED_KEY_CODE, KEY_RELEASE_CODE,
};

/// Contains the implementation of Scancode Set 2.
///
/// See the OS dev wiki: <https://wiki.osdev.org/PS/2_Keyboard#Scan_Code_Set_2>
/// Additional reference: <https://www.win.tue.nl/~aeb/linux/kbd/scancodes-10.html>
pub struct ScancodeSet2 {
    state: DecodeState,
}

impl ScancodeSet2 {
    /// Construct a new [`ScancodeSet2`] decoder.
    pub const fn new() -> ScancodeSet2 {
        ScancodeSet2 {
            state: DecodeState::Start,
        }
    }

    /// Implements the single byte codes for Set 2.
    fn map_scancode(code: u8) -> Result<KeyCode, Error> {
        match code {
            0x00 => Ok(KeyCode::TooManyKeys),
            0x01 => Ok(KeyCode::F9),
            // 0x02
            0x03 => Ok(KeyCode::F5),
            0x04 => Ok(KeyCode::F3),
            0x05 => Ok(KeyCode::F1),
            0x06 => Ok(KeyCode::F2),
            0x07 => Ok(KeyCode::F12),
            0x09 => Ok(KeyCode::F10),
            0x0A => Ok(KeyCode::F8),
            0x0B => Ok(KeyCode::F6),
            0x0C => Ok(KeyCode::F4),
            0x0D => Ok(KeyCode::Tab),
            0x0E => Ok(KeyCode::Oem8),
            0x11 => Ok(KeyCode::LAlt),
            0x12 => Ok(KeyCode::LShift),
            0x13 => Ok(KeyCode::Oem11),
            0x14 => Ok(KeyCode::LControl),
            0x15 => Ok(KeyCode::Q),
            0x16 => Ok(KeyCode::Key1),
            0x1A => Ok(KeyCode::Z),
            0x1B => Ok(KeyCode::S),
            0x1C => Ok(KeyCode::A),
            0x1D => Ok(KeyCode::W),
            0x1E => Ok(KeyCode::Key2),
            0x21 => Ok(KeyCode::C),
            0x22 => Ok(KeyCode::X),
            0x23 => Ok(KeyCode::D),
            0x24 => Ok(KeyCode::E),
            0x25 => Ok(KeyCode::Key4),
            0x26 => Ok(KeyCode::Key3),
            0x29 => Ok(KeyCode::Spacebar),
            0x2A => Ok(KeyCode::V),
            0x2B => Ok(KeyCode::F),
            0x2C => Ok(KeyCode::T),
            0x2D => Ok(KeyCode::R),
            0x2E => Ok(KeyCode::Key5),
            0x31 => Ok(KeyCode::N),
            0x32 => Ok(KeyCode::B),
            0x33 => Ok(KeyCode::H),
            0x34 => Ok(KeyCode::G),
            0x35 => Ok(KeyCode::Y),
            0x36 => Ok(KeyCode::Key6),
            0x3A => Ok(KeyCode::M),
            0x3B => Ok(KeyCode::J),
            0x3C => Ok(KeyCode::U),
            0x3D => Ok(KeyCode::Key7),
            0x3E => Ok(KeyCode::Key8),
            0x41 => Ok(KeyCode::OemComma),
            0x42 => Ok(KeyCode::K),
            0x43 => Ok(KeyCode::I),
            0x44 => Ok(KeyCode::O),
            0x45 => Ok(KeyCode::Key0),
            0x46 => Ok(KeyCode::Key9),
            0x49 => Ok(KeyCode::OemPeriod),
            0x4A => Ok(KeyCode::Oem2),
            0x4B => Ok(KeyCode::L),
            0x4C => Ok(KeyCode::Oem1),
            0x4D => Ok(KeyCode::P),
            0x4E => Ok(KeyCode::OemMinus),
            0x51 => Ok(KeyCode::Oem12),
            0x52 => Ok(KeyCode::Oem3),
            0x54 => Ok(KeyCode::Oem4),
            0x55 => Ok(KeyCode::OemPlus),
            0x58 => Ok(KeyCode::CapsLock),
            0x59 => Ok(KeyCode::RShift),
            0x5A => Ok(KeyCode::Return),
            0x5B => Ok(KeyCode::Oem6),
            0x5D => Ok(KeyCode::Oem7),
            0x61 => Ok(KeyCode::Oem5),
            0x64 => Ok(KeyCode::Oem10),
            0x66 => Ok(KeyCode::Backspace),
            0x67 => Ok(KeyCode::Oem9),
            0x69 => Ok(KeyCode::Numpad1),
            0x6A => Ok(KeyCode::Oem13),
            0x6B => Ok(KeyCode::Numpad4),
            0x6C => Ok(KeyCode::Numpad7),
            0x70 => Ok(KeyCode::Numpad0),
            0x71 => Ok(KeyCode::NumpadPeriod),
            0x72 => Ok(KeyCode::Numpad2),
            0x73 => Ok(KeyCode::Numpad5),
            0x74 => Ok(KeyCode::Numpad6),
            0x75 => Ok(KeyCode::Numpad8),
            0x76 => Ok(KeyCode::Escape),
            0x77 => Ok(KeyCode::NumpadLock),
            0x78 => Ok(KeyCode::F11),
            0x79 => Ok(KeyCode::NumpadAdd),
            0x7A => Ok(KeyCode::Numpad3),
            0x7B => Ok(KeyCode::NumpadSubtract),
            0x7C => Ok(KeyCode::NumpadMultiply),
            0x7D => Ok(KeyCode::Numpad9),
            0x7E => Ok(KeyCode::ScrollLock),
            0x7F => Ok(KeyCode::SysRq),
            0x83 => Ok(KeyCode::F7),
            0xAA => Ok(KeyCode::PowerOnTestOk),
            _ => Err(Error::UnknownKeyCode),
        }
    }

    /// Implements the extended byte codes for set 2 (prefixed with E0)
    fn map_extended_scancode(code: u8) -> Result<KeyCode, Error> {
        match code {
            0x11 => Ok(KeyCode::RAltGr),
            0x12 => Ok(KeyCode::RAlt2),
            0x14 => Ok(KeyCode::RControl),
            0x15 => Ok(KeyCode::PrevTrack),
            0x1F => Ok(KeyCode::LWin),
            0x21 => Ok(KeyCode::VolumeDown),
            0x23 => Ok(KeyCode::Mute),
            0x27 => Ok(KeyCode::RWin),
            0x2B => Ok(KeyCode::Calculator),
            0x2F => Ok(KeyCode::Apps),
            0x32 => Ok(KeyCode::VolumeUp),
            0x34 => Ok(KeyCode::Play),
            0x3A => Ok(KeyCode::WWWHome),
            0x3B => Ok(KeyCode::Stop),
            0x4A => Ok(KeyCode::NumpadDivide),
            0x4D => Ok(KeyCode::NextTrack),
            0x5A => Ok(KeyCode::NumpadEnter),
            0x69 => Ok(KeyCode::End),
            0x6B => Ok(KeyCode::ArrowLeft),
            0x6C => Ok(KeyCode::Home),
            0x70 => Ok(KeyCode::Insert),
            0x71 => Ok(KeyCode::Delete),
            0x72 => Ok(KeyCode::ArrowDown),
            0x74 => Ok(KeyCode::ArrowRight),
            0x75 => Ok(KeyCode::ArrowUp),
            0x7A => Ok(KeyCode::PageDown),
            0x7C => Ok(KeyCode::PrintScreen),
            0x7D => Ok(KeyCode::PageUp),
            _ => Err(Error::UnknownKeyCode),
        }
    }

    /// Implements the alternate extended byte codes for set 2 (prefixed with E1)
    fn map_extended2_scancode(code: u8) -> Result<KeyCode, Error> {
        match code {
            0x14 => Ok(KeyCode::RControl2),
            _ => Err(Error::UnknownKeyCode),
        }
    }
}

impl ScancodeSet for ScancodeSet2 {
    /// Implements state logic for scancode set 2
    ///
    /// ## Start:
    /// * F0 => Goto Release
    /// * E0 => Goto Extended
    /// * E1 => Goto Extended2
    /// * xx => Key Down Event
    ///
    /// ## Release:
    /// * xxx => Key Up Event
    ///
    /// ## Extended:
    /// * F0 => Goto Release-Extended
    /// * xx => Extended Key Down Event
    ///
    /// ## Release-Extended:
    /// * xxx => Extended Key Up Event
    ///
    /// ## Extended2:
    /// * F0 => Goto Release-Extended2
    /// * xx => Extended2 Key Down Event
    ///
    /// ## Release-Extended2:
    /// * xxx => Extended2 Key Up Event
    fn advance_state(&mut self, code: u8) -> Result<Option<KeyEvent>, Error> {
        match self.state {
            DecodeState::Start => match code {
                EXTENDED_KEY_CODE => {
                    self.state = DecodeState::Extended;
                    Ok(None)
                }
                EXTENDED2_KEY_CODE => {
                    self.state = DecodeState::Extended2;
                    Ok(None)
                }
                KEY_RELEASE_CODE => {
                    self.state = DecodeState::Release;
                    Ok(None)
                }
                _ => {
                    let keycode = Self::map_scancode(code)?;
                    if keycode == KeyCode::TooManyKeys || keycode == KeyCode::PowerOnTestOk {
                        Ok(Some(KeyEvent::new(keycode, KeyState::SingleShot)))
                    } else {
                        Ok(Some(KeyEvent::new(
                            Self::map_scancode(code)?,
                            KeyState::Down,
                        )))
                    }
                }
            },
            DecodeState::Release => {
                self.state = DecodeState::Start;
                Ok(Some(KeyEvent::new(Self::map_scancode(code)?, KeyState::Up)))
            }
            DecodeState::Extended => match code {
                KEY_RELEASE_CODE => {
                    self.state = DecodeState::ExtendedRelease;
                    Ok(None)
                }
                _ => {
                    self.state = DecodeState::Start;

                    let keycode = Self::map_extended_scancode(code)?;
                    Ok(Some(KeyEvent::new(keycode, KeyState::Down)))
                }
            },
            DecodeState::ExtendedRelease => {
                self.state = DecodeState::Start;
                Ok(Some(KeyEvent::new(
                    Self::map_extended_scancode(code)?,
                    KeyState::Up,
                )))
            }
            DecodeState::Extended2 => match code {
                KEY_RELEASE_CODE => {
                    self.state = DecodeState::Extended2Release;
                    Ok(None)
                }
                _ => {
                    self.state = DecodeState::Start;
                    Ok(Some(KeyEvent::new(
                        Self::map_extended2_scancode(code)?,
                        KeyState::Down,
                    )))
                }
            },
            DecodeState::Extended2Release => {
                self.state = DecodeState::Start;
                Ok(Some(KeyEvent::new(
                    Self::map_extended2_scancode(code)?,
                    KeyState::Up,
                )))
            }
        }
    }
}

impl Default for ScancodeSet2 {
    fn default() -> Self {
        ScancodeSet2::new()
    }
}

#[cfg(test)]
mod test {
    use super::*;

    #[test]
    fn validate_scancodes() {
        let mut codes = Vec::new();
        let mut errs = Vec::new();
        for code in 0x00..=0xFF {
            let r = ScancodeSet2::map_scancode(code);
            match r {
                Ok(c) => codes.push(c),
                Err(_) => errs.push(code),
            }
        }
        codes.sort();
        println!("{:?}", codes);
        assert_eq!(codes.len(), 94);
        assert_eq!(errs.len(), 162);
    }
}
