#!/bin/bash
# Run once after a fresh restore, offline. Builds nothing that is not on disk.
set -e
cd "$(dirname "$0")"
export CARGO_NET_OFFLINE=true
mkdir -p build out evidence
verus --version | head -2
cargo kani --version || true
python3 -c "import sys; sys.path.insert(0,'.'); from engine import gen, vspec, verus, check; print('engine ok')"
if [ -d replayer ]; then
  (cd replayer && cp /repo/Cargo.lock . 2>/dev/null || true; CARGO_TARGET_DIR=../build/replayer-target cargo build --offline --release 2>&1 | tail -2) || echo "replayer build deferred to first use"
fi
echo setup done
