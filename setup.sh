#!/bin/bash
# Run once after a fresh restore, offline. Builds only from files on disk: checks the tools, pre-builds the native
# replayer against /repo and warms the Kani discharge cache (both are rebuilt / re-keyed by every check anyway, from
# /repo's current tree, so nothing here is needed for correctness).
set -e
cd "$(dirname "$0")"
export CARGO_NET_OFFLINE=true
mkdir -p build out evidence
verus --version | head -2
cargo kani --version || true
python3 - <<'PY'
import sys
sys.path.insert(0, '.')
from engine import gen, native, kani, vspec, verus, check
info = gen.generate('/repo', 'contracts')
print('extracted %d functions, %d contract clauses' % (len(info.functions), len(info.obligations)))
try:
    print('replayer:', native.build(info))
except Exception as e:
    print('replayer build deferred to first use:', e)
try:
    ok, cov, why = kani.discharge(['count_ones_is_bit_sum', 'char_from_u8_is_cast', 'predicates_equal_copies'], info, 'quick')
    print('kani discharge:', ok, why)
except Exception as e:
    print('kani discharge deferred to first use:', e)
PY
echo setup done
