"""Counterexamples for rejected contract clauses / lemmas through Kani's concrete playback.

The harness asserts the executable rendering (replayer/src/xspec.rs) of the same specification over symbolic inputs
against the real compiled code; Kani's concrete playback prints the values; the native replayer executes them.
"""
import os
import re

from . import kani, native

# which scenario(s) exercise the functions an obligation is about
FAMILIES = [
    (r'^Ps2Decoder::(check_word|add_word|get_bit|has_even_number_bits)', ['word', 'bits']),
    (r'^(Ps2Decoder::|Default for Ps2Decoder)', ['bits', 'word']),
    (r'^(ScancodeSet for ScancodeSet1|ScancodeSet1::|Default for ScancodeSet1)', ['stream1']),
    (r'^(ScancodeSet for ScancodeSet2|ScancodeSet2::|Default for ScancodeSet2)', ['stream2']),
    (r'^trait ScancodeSet', ['stream2', 'stream1']),
    (r'^EventDecoder::process_keyevent/ensures#1', ['events_mods']),
    (r'^EventDecoder::process_keyevent/ensures#3', ['events_decode', 'events_values']),
    (r'^Keyboard::process_keyevent/ensures#2', ['events_mods']),
    (r'^Keyboard::process_keyevent/ensures#4', ['events_decode', 'events_values']),
    (r'^(EventDecoder::|KeyEvent::)', ['events']),
    (r'^Keyboard::(process_keyevent|get_modifiers|set_ctrl_handling|get_ctrl_handling)', ['events', 'keyboard2']),
    (r'^Keyboard::', ['bits', 'keyboard2', 'keyboard1']),
    (r'^KeyboardLayout for ', ['layout_total']),
    (r'^C05/', ['word', 'bits']), (r'^C06/', ['bits']), (r'^C04/', ['events_mods']), (r'^C14/', ['events_decode', 'events_values']),
    (r'^C18/', ['keyboard2', 'keyboard1']), (r'^C07/.*set1', ['resync1']), (r'^C07/', ['resync2', 'resync1']),
    (r'^C01/', ['stream2']), (r'^C02/', ['stream1']), (r'^C19/.*set1', ['pairing1']), (r'^C19/', ['pairing2', 'pairing1']),
]
KANI_FAST = ('word', 'bits', 'events', 'events_mods', 'events_decode')
NARGS = {'word': 1, 'bits': 3, 'stream1': 5, 'stream2': 5, 'events': 8, 'events_mods': 8, 'events_decode': 8, 'events_values': 8, 'events_values_all': 8, 'resync1': 8, 'resync2': 8, 'pairing1': 3, 'pairing2': 3, 'injective1': 5, 'injective2': 5, 'keyboard1': 8, 'keyboard2': 8, 'layout_total': 5, 'switching': 10, 'events_real': 9}


def scenarios_for(oid):
    for pat, sc in FAMILIES:
        if re.search(pat, oid):
            return sc
    return []


def parse_playback(out):
    """concrete values, one integer per kani::any() in call order (little-endian byte vectors)"""
    vals = []
    m = re.search(r'let concrete_vals: Vec<Vec<u8>> = vec!\[(.*?)\];', out, re.S)
    if not m:
        return None
    for vm in re.finditer(r'vec!\[([0-9,\s]*)\]', m.group(1)):
        bs = [int(x) for x in vm.group(1).replace(' ', '').split(',') if x != '']
        v = 0
        for i, b in enumerate(bs):
            v |= b << (8 * i)
        vals.append(v)
    return vals


def find(prop, failure, R, info, binpath, timeout=600):
    oid = failure.oid or ''
    scs = scenarios_for(oid)
    if not scs:
        return {'counterexample': None, 'counterexample_search': 'no Kani scenario covers this obligation'}
    d, text, npred = kani.prepare(info, subdir='cex')
    tried = []
    for sc in scs:
        if sc not in KANI_FAST:
            tried.append({'scenario': sc, 'kani': 'skipped: CBMC needs minutes to hours (or exhausts memory) on this scenario in this sandbox; native sweep used instead'})
            continue
        r, out = kani.run_harness(d, 'cex::' + sc, extra_args=['-Z', 'concrete-playback', '--concrete-playback=print'], timeout=timeout)
        tried.append({'scenario': sc, 'kani_ok': r['ok'], 'kani_failed': r['failed'], 'wall_s': r['wall_s']})
        if not r['failed']:
            continue
        vals = parse_playback(out)
        if not vals or len(vals) < NARGS[sc]:
            tried[-1]['note'] = 'Kani reported a failure but no concrete values could be parsed'
            continue
        vals = vals[:NARGS[sc]]
        cmd = ['kanicex', sc] + [str(v) for v in vals]
        rc, nout, nerr = native.run(binpath, cmd)
        reproduced = 'RESULT MISMATCH' in nout or 'RESULT PANIC' in nout or rc != 0
        failing = [l for l in re.findall(r'Failed Checks: (.*)', out)][:3]
        if not reproduced:
            # e.g. C08 (panic-only): Kani's harness also fails on a mere disagreement with the specification, which is not
            # this property's hit - go on to the native sweeps of the family
            tried[-1]['note'] = 'Kani produced values %s but the native run of the real code does not reproduce a failure of this property' % vals
            continue
        return {
            'counterexample': {
                'found_by': 'Kani 0.68 concrete playback on harness cex::%s (executable rendering of the specification vs the real compiled code; bounded search, used only to obtain an input)' % sc,
                'scenario': sc, 'values': vals, 'kani_failed_checks': failing,
                'description': 'scenario %s(%s): %s' % (sc, ', '.join(str(v) for v in vals), (nout.strip().split('\n')[-1] if nout else nerr[-200:])),
                'native_trace': nout[-3000:],
            } if reproduced else None,
            'native_replay': {'cmd': cmd, 'output': nout[-3000:], 'reproduced': reproduced},
            'kani_scenarios_tried': tried,
            'counterexample_search': None if reproduced else 'Kani produced values but the native run agrees with the specification',
        }
    # Kani gave nothing (or the scenario is beyond CBMC's reach here): native sweeps of the same scenarios
    from . import standin
    for sc in scs:
        args = {'word': ['words'], 'bits': ['bits'], 'stream1': ['stream', '1'], 'stream2': ['stream', '2'], 'events': ['events', '3'],
                'events_mods': ['events', '1'], 'events_decode': ['events', '2'], 'events_values': ['events', '6'], 'events_values_all': ['events', '7'], 'resync1': ['resync', '1'], 'resync2': ['resync', '2'],
                'pairing1': ['pairing', '1'], 'pairing2': ['pairing', '2'],
                'keyboard1': ['keyboard', '1'], 'keyboard2': ['keyboard', '2'], 'layout_total': ['total']}[sc]
        line = standin.sweep(binpath, args)
        tried.append({'native_sweep': ' '.join(args), 'result': line[:160]})
        if line.startswith('FAILS'):
            h = standin.hit_from_sweep(prop, binpath, args, line)
            h['extra']['kani_scenarios_tried'] = tried
            return h['extra']
        # and a long pseudo-random history of the same family (defects that need hundreds of steps)
        seed = os.environ.get('VERIF_SEED', '0') or '0'
        long_args = {'bits': ['longrun', 'bits', seed, '5000000'], 'word': ['longrun', 'bits', seed, '5000000'],
                     'stream1': ['longrun', 'stream1', seed, '3000000'], 'stream2': ['longrun', 'stream2', seed, '3000000'],
                     'resync1': ['longrun', 'stream1', seed, '3000000'], 'resync2': ['longrun', 'stream2', seed, '3000000'],
                     'events': ['longrun', '3', seed, '3000000'], 'events_mods': ['longrun', '1', seed, '3000000'], 'events_decode': ['longrun', '2', seed, '3000000'],
                     'keyboard1': ['fuzz', '1', seed, '5000000'], 'keyboard2': ['fuzz', '2', seed, '5000000']}.get(sc)
        if long_args:
            line = standin.sweep(binpath, long_args)
            tried.append({'native_sweep': ' '.join(long_args), 'result': line[:160]})
            if line.startswith('FAILS'):
                h = standin.hit_from_sweep(prop, binpath, long_args, line)
                h['extra']['kani_scenarios_tried'] = tried
                return h['extra']
    held = [t['native_sweep'] for t in tried if t.get('native_sweep') and t['result'].startswith('HOLDS')]
    all_held = len(held) >= len(scs) and not any(t.get('native_sweep') and not t['result'].startswith('HOLDS') for t in tried)
    return {'counterexample': None, 'kani_scenarios_tried': tried, 'spurious_bounded': all_held, 'sweeps_held': '; '.join(held),
            'counterexample_search': 'neither Kani nor the native sweeps found a failing input in the scenarios %s' % ', '.join(scs)}


def replay(rec, binpath):
    cmd = rec['native_replay']['cmd']
    rc, out, err = native.run(binpath, cmd)
    print('  native: replayer %s' % ' '.join(cmd))
    for l in (out or err).split('\n')[-30:]:
        print('    ' + l)
    if 'RESULT MISMATCH' in out or 'RESULT PANIC' in out or rc != 0:
        return 1
    return 0 if 'RESULT agrees' in out else 2
