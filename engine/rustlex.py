"""Minimal Rust lexer + item scanner used by the extractor.

It is not a Rust parser: it recognises exactly what is needed to locate items
(modules, impls, traits, functions, derives) in the pc-keyboard sources without
ever running a regex over code text: comments, string / raw-string / byte-string
literals, char literals vs lifetimes, numbers, identifiers, punctuation.
Anything it cannot classify raises ExtractError (-> exit 2, never an alarm).
"""
from dataclasses import dataclass, field


class ExtractError(Exception):
    pass


@dataclass
class Tok:
    kind: str   # 'ws','lcomment','bcomment','str','char','life','num','id','p'
    text: str
    pos: int    # offset into the source text


ID_START = set("abcdefghijklmnopqrstuvwxyzABCDEFGHIJKLMNOPQRSTUVWXYZ_")
ID_CONT = ID_START | set("0123456789")


def lex(s):
    toks = []
    i = 0
    n = len(s)
    while i < n:
        c = s[i]
        st = i
        if c in " \t\r\n":
            while i < n and s[i] in " \t\r\n":
                i += 1
            toks.append(Tok('ws', s[st:i], st))
        elif s.startswith('//', i):
            j = s.find('\n', i)
            if j < 0:
                j = n
            i = j
            toks.append(Tok('lcomment', s[st:i], st))
        elif s.startswith('/*', i):
            depth = 0
            while i < n:
                if s.startswith('/*', i):
                    depth += 1
                    i += 2
                elif s.startswith('*/', i):
                    depth -= 1
                    i += 2
                    if depth == 0:
                        break
                else:
                    i += 1
            if depth != 0:
                raise ExtractError('unterminated block comment at %d' % st)
            toks.append(Tok('bcomment', s[st:i], st))
        elif c == '"' or (c == 'b' and s.startswith('b"', i)):
            i += 1 if c == '"' else 2
            while i < n and s[i] != '"':
                if s[i] == '\\':
                    i += 1
                i += 1
            if i >= n:
                raise ExtractError('unterminated string at %d' % st)
            i += 1
            toks.append(Tok('str', s[st:i], st))
        elif (c == 'r' and (s.startswith('r"', i) or s.startswith('r#', i))) or \
             (c == 'b' and (s.startswith('br"', i) or s.startswith('br#', i))):
            j = i + (1 if c == 'r' else 2)
            h = 0
            while j < n and s[j] == '#':
                h += 1
                j += 1
            if j < n and s[j] == '"':
                end = s.find('"' + '#' * h, j + 1)
                if end < 0:
                    raise ExtractError('unterminated raw string at %d' % st)
                i = end + 1 + h
                toks.append(Tok('str', s[st:i], st))
            else:
                # plain identifier starting with r / br (e.g. r#ident is not used here)
                while i < n and s[i] in ID_CONT:
                    i += 1
                toks.append(Tok('id', s[st:i], st))
        elif c == "'":
            # char literal or lifetime
            if i + 1 < n and s[i + 1] == '\\':
                j = i + 2
                # escaped char: find closing quote
                while j < n and s[j] != "'":
                    j += 1
                if j >= n:
                    raise ExtractError('unterminated char literal at %d' % st)
                i = j + 1
                toks.append(Tok('char', s[st:i], st))
            elif i + 2 < n and s[i + 2] == "'":
                i += 3
                toks.append(Tok('char', s[st:i], st))
            else:
                i += 1
                while i < n and s[i] in ID_CONT:
                    i += 1
                toks.append(Tok('life', s[st:i], st))
        elif c.isdigit():
            while i < n and (s[i] in ID_CONT):
                i += 1
            # fractional part (not used in this crate, but do not mis-lex `1.into()`)
            if i + 1 < n and s[i] == '.' and s[i + 1].isdigit():
                i += 1
                while i < n and s[i] in ID_CONT:
                    i += 1
            toks.append(Tok('num', s[st:i], st))
        elif c in ID_START:
            while i < n and s[i] in ID_CONT:
                i += 1
            toks.append(Tok('id', s[st:i], st))
        else:
            i += 1
            toks.append(Tok('p', c, st))
    return toks


def sig(toks):
    """indices of significant (non-ws, non-comment) tokens"""
    return [k for k, t in enumerate(toks) if t.kind not in ('ws', 'lcomment', 'bcomment')]


OPEN = {'{': '}', '(': ')', '[': ']'}
CLOSE = {'}', ')', ']'}


def match_close(toks, k):
    """toks[k] is an opening bracket token; return index of the matching closer"""
    stack = []
    n = len(toks)
    while k < n:
        t = toks[k]
        if t.kind == 'p':
            if t.text in OPEN:
                stack.append(OPEN[t.text])
            elif t.text in CLOSE:
                if not stack or stack[-1] != t.text:
                    raise ExtractError('unbalanced bracket at %d' % t.pos)
                stack.pop()
                if not stack:
                    return k
        k += 1
    raise ExtractError('unbalanced bracket (eof)')


@dataclass
class Fn:
    name: str
    owner: str            # normalised impl/trait header, '' for free fns
    module: str           # module path, e.g. 'layouts::de105'
    start: int            # offset of first token of the item (attrs/vis included)
    sig_start: int        # offset of 'fn' keyword's qualifiers (pub/const/...)
    sig_end: int          # offset of '{' or ';'
    body_start: int       # offset of '{' (== sig_end) or -1
    body_end: int         # offset one past '}' or one past ';'
    has_body: bool
    ret_span: tuple = None    # (start, end) offsets of the return type text, or None
    params_span: tuple = None  # offsets of '(' and matching ')' of the parameter list
    attrs: list = field(default_factory=list)
    canon_key: str = ''       # key at the pinned commit when the function was merely renamed / moved (engine/follow.py)
    real_name: str = ''

    @property
    def key(self):
        if self.canon_key:
            return self.canon_key
        return (self.owner + '::' if self.owner else (self.module + '::' if self.module else '')) + self.name


@dataclass
class Block:
    kind: str             # 'impl' | 'trait' | 'mod'
    header: str           # normalised header
    raw_header: str
    start: int
    brace_open: int
    brace_close: int      # offset of the closing brace
    module: str


@dataclass
class ModDecl:
    name: str
    vis: str
    start: int
    end: int              # one past ';'
    cfg_test: bool


@dataclass
class Derive:
    start: int            # offset of '#'
    end: int              # one past ']'
    inner_start: int      # offset just after 'derive('
    inner_end: int        # offset of the ')' of derive(...)
    traits: list


@dataclass
class Scan:
    fns: list
    blocks: list
    moddecls: list
    derives: list
    drop_spans: list      # (start,end) spans to delete (cfg(test) modules, inner attrs, //! comments)
    unsafe_count: int
    loops: int


def norm_header(words):
    """normalise an impl/trait header: drop generics right after `impl`, path prefixes,
    where clauses and generic arguments of the named types."""
    out = []
    k = 0
    # words is a list of token texts (significant tokens), starting after 'impl' / 'trait'
    # drop leading generic parameter list
    if k < len(words) and words[k] == '<':
        d = 0
        while k < len(words):
            if words[k] == '<':
                d += 1
            elif words[k] == '>':
                d -= 1
                if d == 0:
                    k += 1
                    break
            k += 1
    res = []
    d = 0
    while k < len(words):
        w = words[k]
        if w == 'where' and d == 0:
            break
        if w == '<':
            d += 1
        elif w == '>':
            d -= 1
        elif d == 0:
            res.append(w)
        k += 1
    # join, removing path prefixes  (super :: X  /  crate :: X)
    txt = ''
    i = 0
    while i < len(res):
        w = res[i]
        if w in ('super', 'crate', 'self') and i + 2 < len(res) and res[i + 1] == ':' and res[i + 2] == ':':
            i += 3
            continue
        if w == 'for':
            txt += ' for '
        elif w == ':' :
            txt += ':'
        else:
            txt += w
        i += 1
    return txt.strip()


def scan(src, module):
    """Scan one source file. Returns Scan with offsets into src."""
    toks = lex(src)
    S = sig(toks)
    fns, blocks, moddecls, derives, drops = [], [], [], [], []
    private_consts = []
    unsafe_count = sum(1 for k in S if toks[k].kind == 'id' and toks[k].text == 'unsafe')
    loops = sum(1 for k in S if toks[k].kind == 'id' and toks[k].text in ('loop', 'while', 'for'))

    # inner doc comments and inner attributes
    for t in toks:
        if t.kind == 'lcomment' and t.text.startswith('//!'):
            drops.append((t.pos, t.pos + len(t.text)))

    def T(j):
        return toks[S[j]] if j < len(S) else Tok('eof', '', len(src))

    def end_of(j):
        t = T(j)
        return t.pos + len(t.text)

    def parse_items(j, jend, owner, owner_kind):
        """parse items between significant-token indices j..jend (exclusive)"""
        nonlocal loops
        while j < jend:
            item_start_j = j
            attrs = []
            cfg_test = False
            # attributes
            while T(j).text == '#':
                if T(j + 1).text == '!':
                    # inner attribute: #![...]
                    kclose = match_close(toks, S[j + 2])
                    jj = S.index(kclose)
                    drops.append((T(j).pos, toks[kclose].pos + 1))
                    j = jj + 1
                    item_start_j = j
                    continue
                if T(j + 1).text != '[':
                    raise ExtractError('odd attribute at %d' % T(j).pos)
                kclose = match_close(toks, S[j + 1])
                jj = S.index(kclose)
                words = [T(x).text for x in range(j + 2, jj)]
                attrs.append(''.join(words))
                if words[:1] == ['derive']:
                    inner_open = T(j + 3)
                    kc2 = match_close(toks, S[j + 3])
                    tr = [w for w in words[2:-1] if w != ',']
                    derives.append(Derive(T(j).pos, toks[kclose].pos + 1, inner_open.pos + 1, toks[kc2].pos, tr))
                if ''.join(words) == 'cfg(test)':
                    cfg_test = True
                j = jj + 1
            if j >= jend:
                break
            # visibility
            vis = ''
            if T(j).text == 'pub':
                vis = 'pub '
                j += 1
                if T(j).text == '(':
                    kclose = match_close(toks, S[j])
                    j = S.index(kclose) + 1
            # qualifiers
            quals_j = j
            while T(j).text in ('const', 'unsafe', 'async', 'extern', 'default') and T(j + 1).text in ('fn', 'const', 'unsafe', 'async', 'extern'):
                j += 1
            kw = T(j).text
            if kw == 'fn':
                name = T(j + 1).text
                # find params '(' — skip generics
                jj = j + 2
                if T(jj).text == '<':
                    d = 0
                    while True:
                        if T(jj).text == '<':
                            d += 1
                        elif T(jj).text == '>' and T(jj - 1).text != '-':
                            d -= 1
                            if d == 0:
                                jj += 1
                                break
                        jj += 1
                if T(jj).text != '(':
                    raise ExtractError('fn %s: no parameter list' % name)
                kpc = match_close(toks, S[jj])
                jpc = S.index(kpc)
                params_span = (T(jj).pos, toks[kpc].pos)
                # return type
                jr = jpc + 1
                ret_span = None
                # scan to '{' or ';' at depth 0
                jx = jr
                while T(jx).text not in ('{', ';'):
                    if T(jx).text in ('(', '['):
                        jx = S.index(match_close(toks, S[jx]))
                    jx += 1
                    if jx >= len(S):
                        raise ExtractError('fn %s: no body' % name)
                if T(jr).text == '-' and T(jr + 1).text == '>':
                    # return type runs until 'where' or the terminator
                    je = jr + 2
                    while je < jx and T(je).text != 'where':
                        je += 1
                    ret_span = (T(jr + 2).pos, end_of(je - 1))
                if T(jx).text == '{':
                    kbc = match_close(toks, S[jx])
                    body_end = toks[kbc].pos + 1
                    has_body = True
                    jnext = S.index(kbc) + 1
                else:
                    body_end = T(jx).pos + 1
                    has_body = False
                    jnext = jx + 1
                fns.append(Fn(name, owner, module, T(item_start_j).pos, T(_after_attrs(item_start_j)).pos,
                              T(jx).pos, T(jx).pos if has_body else -1, body_end, has_body, ret_span, params_span, attrs))
                j = jnext
            elif kw in ('impl', 'trait'):
                jx = j + 1
                while T(jx).text != '{':
                    if T(jx).text in ('(', '['):
                        jx = S.index(match_close(toks, S[jx]))
                    jx += 1
                words = [T(x).text for x in range(j + 1, jx)]
                hdr = norm_header(words)
                if kw == 'trait':
                    hdr = 'trait ' + hdr.split(':')[0].strip()
                kbc = match_close(toks, S[jx])
                jbc = S.index(kbc)
                blocks.append(Block(kw, hdr, src[T(j).pos:T(jx).pos], T(item_start_j).pos, T(jx).pos, toks[kbc].pos, module))
                parse_items(jx + 1, jbc, hdr, kw)
                j = jbc + 1
            elif kw == 'mod':
                name = T(j + 1).text
                if T(j + 2).text == ';':
                    moddecls.append(ModDecl(name, vis, T(item_start_j).pos, T(j + 2).pos + 1, cfg_test))
                    j = j + 3
                else:
                    kbc = match_close(toks, S[j + 2])
                    jbc = S.index(kbc)
                    if cfg_test:
                        drops.append((T(item_start_j).pos, toks[kbc].pos + 1))
                        # tests may contain loops / unsafe: do not count them
                        for x in range(j + 2, jbc):
                            if T(x).kind == 'id' and T(x).text in ('loop', 'while', 'for'):
                                loops -= 1
                    else:
                        raise ExtractError('inline non-test module %s not supported' % name)
                    j = jbc + 1
            elif kw in ('struct', 'enum', 'union'):
                jx = j + 1
                while T(jx).text not in ('{', ';', '('):
                    jx += 1
                if T(jx).text == '(':
                    jx = S.index(match_close(toks, S[jx])) + 1
                    while T(jx).text != ';':
                        jx += 1
                    j = jx + 1
                elif T(jx).text == '{':
                    j = S.index(match_close(toks, S[jx])) + 1
                else:
                    j = jx + 1
            elif kw in ('use', 'const', 'static', 'type', 'extern'):
                if kw in ('const', 'static') and not vis:
                    private_consts.append(T(j).pos)
                jx = j
                while T(jx).text != ';':
                    if T(jx).text in ('(', '[', '{'):
                        jx = S.index(match_close(toks, S[jx]))
                    jx += 1
                j = jx + 1
            elif T(j + 1).text == '!' and T(j).kind == 'id':
                # `macro_rules! name { .. }` or an item-position macro invocation `name! { .. }` / `name!( .. );`: kept
                # verbatim; what it expands to is not seen by this scanner (no contract can be attached to it) but is still
                # checked by the verifier like any other code
                jx = j + 2
                if T(j).text == 'macro_rules':
                    jx += 1
                if T(jx).text not in ('{', '(', '['):
                    raise ExtractError('unrecognised macro item at offset %d in module %s' % (T(j).pos, module))
                closer = T(jx).text
                jx = S.index(match_close(toks, S[jx])) + 1
                if closer != '{' and T(jx).text == ';':
                    jx += 1
                j = jx
            else:
                raise ExtractError('unrecognised item starting with %r at offset %d in module %s' % (kw, T(j).pos, module))

    def _after_attrs(j):
        while T(j).text == '#':
            kclose = match_close(toks, S[j + 1])
            j = S.index(kclose) + 1
        return j

    parse_items(0, len(S), '', 'mod')
    # `for` in `impl X for Y` is counted as a loop keyword above: subtract those
    for b in blocks:
        if b.kind == 'impl' and ' for ' in b.header:
            loops -= 1
    sc = Scan(fns, blocks, moddecls, derives, drops, unsafe_count, loops)
    sc.private_consts = private_consts
    return sc, toks
