"""Kani/CBMC: discharge of the assumptions Verus has to make, on the real compiled crate."""
import fcntl
import hashlib
import json
import os
import re
import shutil
import subprocess
import time

VERIF = os.path.dirname(os.path.dirname(os.path.abspath(__file__)))
REPO = os.environ.get('VERIF_REPO', '/repo')
# build output, replay files and evidence go under VERIF unless a scratch root is given (self-tests on mutated copies)
SCRATCH = os.environ.get('VERIF_SCRATCH') or VERIF
KDIR = os.path.join(SCRATCH, 'build', 'kani')


def derived_rs(info):
    preds = [d for d in info.derived if d['kind'] == 'predicate']
    out = ['// generated from %s on every run: the derived copies of the Modifiers predicates' % REPO,
           'pub trait DerivedCopies {']
    for d in preds:
        name = d['fn'].split('::')[-1]
        out.append('    fn spec_%s(&self) -> bool;' % name)
    out.append('}')
    out.append('impl DerivedCopies for Modifiers {')
    for d in preds:
        name = d['fn'].split('::')[-1]
        body = re.sub(r'\.is_(\w+)\s*\(', r'.spec_is_\1(', d['copy'])
        out.append('    fn spec_%s(&self) -> bool %s' % (name, body))
    out.append('}')
    out.append('pub fn check_predicates(m: &Modifiers) {')
    for d in preds:
        name = d['fn'].split('::')[-1]
        out.append('    assert!(m.%s() == m.spec_%s());' % (name, name))
    out.append('}')
    return '\n'.join(out) + '\n', len(preds)


def tree_hash(extra=''):
    h = hashlib.sha256()
    for root, dirs, files in sorted(os.walk(os.path.join(REPO, 'src'))):
        dirs.sort()
        for f in sorted(files):
            p = os.path.join(root, f)
            h.update(p.encode())
            h.update(open(p, 'rb').read())
    h.update(open(os.path.join(REPO, 'Cargo.toml'), 'rb').read())
    h.update(extra.encode())
    return h.hexdigest()


def prepare(info, subdir='discharge', lib_text=None, extra_files=None):
    d = os.path.join(KDIR, subdir)
    os.makedirs(os.path.join(d, 'src'), exist_ok=True)
    os.makedirs(os.path.join(d, '.cargo'), exist_ok=True)
    tpl = os.path.join(VERIF, 'kani_template')
    open(os.path.join(d, 'Cargo.toml'), 'w').write(open(os.path.join(tpl, 'Cargo.toml')).read().replace('@REPO@', REPO))
    shutil.copy(os.path.join(tpl, '.cargo', 'config.toml'), os.path.join(d, '.cargo', 'config.toml'))
    lock = os.path.join(REPO, 'Cargo.lock')
    text = lib_text if lib_text is not None else open(os.path.join(tpl, 'src', 'lib.rs')).read()
    open(os.path.join(d, 'src', 'lib.rs'), 'w').write(text)
    dtext, npred = derived_rs(info)
    open(os.path.join(d, 'src', 'derived.rs'), 'w').write(dtext)
    from . import native
    xg = native.xgen_rs(info)
    open(os.path.join(d, 'src', 'xgen.rs'), 'w').write(xg)
    shutil.copy(os.path.join(VERIF, 'replayer', 'src', 'xspec.rs'), os.path.join(d, 'src', 'xspec.rs'))
    for name, content in (extra_files or {}).items():
        open(os.path.join(d, 'src', name), 'w').write(content)
    # everything the harness crate is built from goes into the cache key
    return d, text + dtext + xg + open(os.path.join(VERIF, 'replayer', 'src', 'xspec.rs')).read(), npred


def run_harness(d, harness, extra_args=(), timeout=900, mem_gb=12):
    cmd = ['cargo', 'kani', '--harness', harness, '--exact'] + list(extra_args)
    env = dict(os.environ)
    env['CARGO_NET_OFFLINE'] = 'true'
    env['CARGO_TARGET_DIR'] = os.path.join(KDIR, 'target')
    t0 = time.time()
    sh = 'ulimit -v %d; exec "$@"' % (mem_gb * 1024 * 1024)
    try:
        p = subprocess.run(['bash', '-c', sh, 'bash'] + cmd, cwd=d, env=env, capture_output=True, text=True, timeout=timeout)
        out = p.stdout + p.stderr
        rc = p.returncode
    except subprocess.TimeoutExpired as e:
        out = (e.stdout or b'').decode('utf-8', 'replace') if isinstance(e.stdout, bytes) else (e.stdout or '')
        out += '\nTIMEOUT'
        rc = 124
    wall = time.time() - t0
    ok = 'VERIFICATION:- SUCCESSFUL' in out and rc == 0
    failed = 'VERIFICATION:- FAILED' in out
    m = re.search(r'\*\* (\d+) of (\d+) failed', out)
    checks = int(m.group(2)) if m else 0
    nfail = int(m.group(1)) if m else (0 if ok else -1)
    vt = re.search(r'Verification Time: ([0-9.]+)s', out)
    return {'harness': harness, 'ok': ok, 'failed': failed, 'checks': checks, 'checks_failed': nfail, 'wall_s': round(wall, 2),
            'solver_s': float(vt.group(1)) if vt else None, 'cmd': 'CARGO_NET_OFFLINE=true ' + ' '.join(cmd), 'rc': rc, 'output_tail': out[-1500:] if not ok else ''}, out


def discharge(harnesses, info, tier):
    """returns (ok, coverage dict, reason)"""
    os.makedirs(KDIR, exist_ok=True)
    lockf = open(os.path.join(KDIR, '.lock'), 'w')
    fcntl.flock(lockf, fcntl.LOCK_EX)
    try:
        d, text, npred = prepare(info)
        key = tree_hash(text)
        cache_p = os.path.join(KDIR, 'discharge_cache.json')
        cache = {}
        if os.path.exists(cache_p):
            try:
                cache = json.load(open(cache_p))
            except Exception:
                cache = {}
        if cache.get('key') != key:
            cache = {'key': key, 'results': {}}
        cov = {}
        ok_all = True
        why = ''
        for h in harnesses:
            r = cache['results'].get(h)
            if r is None:
                r, out = run_harness(d, 'discharge::' + h)
                if r['ok'] or r['failed']:
                    # only verdicts are cached: a run that did not complete (harness crate did not build, timeout) is retried
                    cache['results'][h] = r
                    json.dump(cache, open(cache_p, 'w'), indent=1)
                r = dict(r)
                r['cached'] = False
            else:
                r = dict(r)
                r['cached'] = True
            if h == 'predicates_equal_copies':
                r['predicates'] = npred
            cov[h] = r
            if not r['ok']:
                ok_all = False
                why = '%s: %s' % (h, 'derived copy differs from the real compiled function or core assumption is false' if r['failed'] else 'Kani did not complete')
        return ok_all, cov, why
    finally:
        fcntl.flock(lockf, fcntl.LOCK_UN)
        lockf.close()
