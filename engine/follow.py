"""Follow mundane renames and moves, so that the contracts (written against the pinned tree) stay attached to the same code.

The contracts in contracts/*.vspec name functions by `Owner::name`, private fields by `self.<field>`, the private enum
`DecodeState` by its variants and the type parameters of `Keyboard` / `EventDecoder` by their letters. Renaming a private
item is the most common edit there is and changes nothing a property talks about, so on every run the current tree is
compared with a copy of the pinned sources (spec/baseline_src/, the tree the contracts were written against):

* a function under contract that no longer exists under its key is matched with a function that did not exist before, has
  the same shape (parameter and return types, receiver) and whose body is most similar (token-level similarity >= 0.6);
  the contract, denotation name and obligation ids keep the baseline name (stable ids for known findings);
* a private field that disappeared while exactly one field of the same type appeared in the same struct;
* enum variants renamed in place (same enum, same number of variants: positional);
* type parameters of an impl block named differently from the struct declaration at the pinned commit (positional).

Everything here is an *untrusted hint*: a wrong match attaches a contract to code that does not satisfy it, which Verus then
rejects; it can never make a proof succeed that should not.
"""
import difflib
import json
import os
import re

from .rustlex import scan, lex

VERIF = os.path.dirname(os.path.dirname(os.path.abspath(__file__)))
BASELINE = os.path.join(VERIF, 'spec', 'baseline_src')
GHOST_VIEW_TYPES = ('Ps2Decoder', 'ScancodeSet1', 'ScancodeSet2', 'EventDecoder', 'Keyboard')


class TreeScan:
    def __init__(self):
        self.fns = {}        # key -> dict(name, owner, module, params, ret, body_tokens, selfkind)
        self.structs = {}    # name -> {'fields': {name: type}, 'generics': [names]}
        self.enums = {}      # name -> [variant names]


def _sig_tokens(text):
    return [t.text for t in lex(text) if t.kind not in ('ws', 'lcomment', 'bcomment')]


def _split_params(ptxt):
    """parameter list text (without the outer parentheses) -> list of type texts, receiver kind"""
    toks = _sig_tokens(ptxt)
    parts, cur, depth = [], [], 0
    for t in toks:
        if t in ('(', '[', '<', '{'):
            depth += 1
        elif t in (')', ']', '>', '}'):
            depth -= 1
        if t == ',' and depth == 0:
            parts.append(cur)
            cur = []
        else:
            cur.append(t)
    if cur:
        parts.append(cur)
    recv = ''
    types = []
    for p in parts:
        if 'self' in p and ':' not in p:
            recv = ''.join(p)
            continue
        if ':' in p:
            types.append(''.join(p[p.index(':') + 1:]))
        else:
            types.append(''.join(p))
    return types, recv


def scan_tree(srcdir):
    ts = TreeScan()

    def walk(path, module, moddir):
        src = open(path, encoding='utf-8').read()
        sc, toks = scan(src, module)
        for f in sc.fns:
            if any(a <= f.start < b for a, b in sc.drop_spans):
                continue
            ptxt = src[f.params_span[0] + 1:f.params_span[1]] if f.params_span else ''
            types, recv = _split_params(ptxt)
            ret = ''.join(_sig_tokens(src[f.ret_span[0]:f.ret_span[1]])) if f.ret_span else ''
            body = [t.text for t in lex(src[f.body_start:f.body_end]) if t.kind not in ('ws', 'lcomment', 'bcomment')] if f.has_body else []
            ts.fns[f.key] = {'name': f.name, 'owner': f.owner, 'module': f.module, 'params': types, 'recv': recv, 'ret': ret, 'body': body,
                             'has_body': f.has_body}
        # structs and enums (top level of this file, outside dropped spans)
        S = [t for t in toks if t.kind not in ('ws', 'lcomment', 'bcomment')]
        for i, t in enumerate(S):
            if any(a <= t.pos < b for a, b in sc.drop_spans):
                continue
            if t.kind == 'id' and t.text in ('struct', 'enum') and i + 1 < len(S) and S[i + 1].kind == 'id' and (i == 0 or S[i - 1].text != '::'):
                name = S[i + 1].text
                j = i + 2
                generics = []
                if j < len(S) and S[j].text == '<':
                    d = 0
                    while j < len(S):
                        if S[j].text == '<':
                            d += 1
                        elif S[j].text == '>':
                            d -= 1
                            if d == 0:
                                j += 1
                                break
                        elif d == 1 and S[j].kind == 'id' and S[j - 1].text in ('<', ','):
                            generics.append(S[j].text)
                        j += 1
                while j < len(S) and S[j].text not in ('{', ';', '('):
                    j += 1
                if j >= len(S) or S[j].text != '{':
                    if t.text == 'struct':
                        ts.structs[name] = {'fields': {}, 'generics': generics}
                    continue
                items, item, depth, k = [], [], 0, j + 1
                while k < len(S):
                    x = S[k].text
                    if x in ('{', '(', '[', '<'):
                        depth += 1
                    elif x in ('}', ')', ']', '>'):
                        if depth == 0:
                            break
                        depth -= 1
                    if depth == 0 and x == ',':
                        items.append(item)
                        item = []
                    else:
                        item.append(S[k])
                    k += 1
                items.append(item)
                clean = []
                for ts_ in items:
                    while ts_ and ts_[0].text == '#':
                        d2, m = 0, 1
                        while m < len(ts_):
                            if ts_[m].text == '[':
                                d2 += 1
                            elif ts_[m].text == ']':
                                d2 -= 1
                                if d2 == 0:
                                    break
                            m += 1
                        ts_ = ts_[m + 1:]
                    if ts_ and ts_[0].text == 'pub':
                        ts_ = ts_[1:]
                        if ts_ and ts_[0].text == '(':
                            while ts_ and ts_[0].text != ')':
                                ts_ = ts_[1:]
                            ts_ = ts_[1:]
                    if ts_:
                        clean.append(ts_)
                if t.text == 'struct':
                    ts.structs[name] = {'fields': {c[0].text: ''.join(y.text for y in c[2:]) for c in clean if len(c) >= 3 and c[1].text == ':'},
                                        'generics': generics}
                else:
                    ts.enums[name] = [c[0].text for c in clean if c[0].kind == 'id']
        for m in sc.moddecls:
            if m.cfg_test:
                continue
            cands = [os.path.join(moddir, m.name + '.rs'), os.path.join(moddir, m.name, 'mod.rs')]
            found = [c for c in cands if os.path.exists(c)]
            if len(found) == 1:
                walk(found[0], (module + '::' if module else '') + m.name, os.path.join(moddir, m.name))

    walk(os.path.join(srcdir, 'lib.rs'), '', srcdir)
    return ts


_BASE = None


def baseline():
    global _BASE
    if _BASE is None:
        _BASE = scan_tree(BASELINE)
    return _BASE


class Follow:
    def __init__(self):
        self.canon = {}        # current function key -> baseline key
        self.fields = {}       # old field name -> new field name (applied to `self.<old>`)
        self.variants = {}     # (enum, old variant) -> new variant
        self.enums = {}        # old enum name -> new enum name
        self.generics = {}     # struct name -> [baseline type parameter names]
        self.notes = []
        self.cur_enums = {}

    def as_dict(self):
        return {'functions': {v: k for k, v in self.canon.items()}, 'fields': self.fields,
                'variants': {'%s::%s' % k: v for k, v in self.variants.items()}, 'enums': self.enums}

    def rewrite_spec_text(self, text):
        """contract / ghost text written against the baseline -> the same text against the current names"""
        for old, new in self.fields.items():
            text = re.sub(r'(\bself|\(self\))\.%s\b' % re.escape(old), r'\1.' + new, text)
        for (en, old), new in self.variants.items():
            text = re.sub(r'\b%s::%s\b' % (re.escape(en), re.escape(old)), '%s::%s' % (en, new), text)
        for old, new in self.enums.items():
            text = re.sub(r'\b%s\b' % re.escape(old), new, text)
        return text


def _similar(a, b):
    if not a and not b:
        return 1.0
    return difflib.SequenceMatcher(None, a, b, autojunk=False).ratio()


def compute(repo, contract_keys=()):
    fo = Follow()
    try:
        base = baseline()
        cur = scan_tree(os.path.join(repo, 'src'))
    except Exception as e:   # following is a convenience: without it the contracts simply stay where they are
        fo.notes.append('rename following unavailable: %r' % (e,))
        return fo

    fo.cur_enums = cur.enums
    # ---- enums (before functions: variant names occur in bodies)
    for en, bv in base.enums.items():
        cv = cur.enums.get(en)
        if cv is None:
            cands = [n for n, v in cur.enums.items() if n not in base.enums and len(v) == len(bv)]
            if len(cands) == 1:
                fo.enums[en] = cands[0]
                cv = cur.enums[cands[0]]
            else:
                continue
        if len(cv) == len(bv) and cv != bv and len(set(cv) & set(bv)) == sum(1 for x, y in zip(bv, cv) if x == y):
            # same number of variants, the ones that kept their name kept their position: the others were renamed in place
            for o, n in zip(bv, cv):
                if o != n:
                    fo.variants[(fo.enums.get(en, en), o)] = n

    # ---- private fields
    votes = {}
    for st, b in base.structs.items():
        c = cur.structs.get(st)
        if c is None:
            continue
        fo.generics[st] = b['generics']
        if st not in GHOST_VIEW_TYPES:
            continue   # only the structs whose private fields the ghost accessors read (the substitution is `self.<field>`)
        for fname, ftype in b['fields'].items():
            if fname in c['fields']:
                votes.setdefault(fname, set()).add(fname)
                continue
            cands = [n for n, t in c['fields'].items() if t == ftype and n not in b['fields']]
            votes.setdefault(fname, set()).add(cands[0] if len(cands) == 1 else None)
    fo.fields = {f: next(iter(v)) for f, v in votes.items() if len(v) == 1 and next(iter(v)) not in (None, f)}

    # ---- functions: baseline keys that vanished vs. keys that are new
    lost = [k for k in base.fns if k not in cur.fns]
    new = [k for k in cur.fns if k not in base.fns]
    if lost and new:
        ren_ids = {}
        for (en, o), n in fo.variants.items():
            ren_ids[n] = o
        for o, n in fo.fields.items():
            ren_ids[n] = o
        for o, n in fo.enums.items():
            ren_ids[n] = o
        # names of functions themselves change inside bodies too: normalise callee names of candidate pairs away by
        # mapping every identifier that is a lost / new function name to a placeholder
        lost_names = set(base.fns[k]['name'] for k in lost)
        new_names = set(cur.fns[k]['name'] for k in new)

        def norm(body, names):
            return ['@fn' if t in names else ren_ids.get(t, t) for t in body]

        pairs = []
        for bk in lost:
            b = base.fns[bk]
            for ck in new:
                c = cur.fns[ck]
                if len(b['params']) != len(c['params']) or b['has_body'] != c['has_body']:
                    continue
                if bool(b['recv']) != bool(c['recv']) and not (b['owner'] and not c['owner']):
                    continue
                if b['recv'].replace(' ', '') != c['recv'].replace(' ', '') and b['recv'] and c['recv']:
                    continue
                sim = _similar(norm(b['body'], lost_names), norm(c['body'], new_names))
                if b['ret'] != c['ret']:
                    sim -= 0.15
                if b['params'] != c['params']:
                    sim -= 0.1
                if b['owner'] == c['owner']:
                    sim += 0.05
                pairs.append((sim, bk, ck))
        pairs.sort(reverse=True)
        used_b, used_c = set(), set()
        for sim, bk, ck in pairs:
            if sim < 0.6:
                break
            if bk in used_b or ck in used_c:
                continue
            used_b.add(bk)
            used_c.add(ck)
            fo.canon[ck] = bk
            fo.notes.append('%s is followed to %s (similarity %.2f)' % (bk, ck, sim))
    return fo
