"""Parser for /verif/contracts/*.vspec.

Format (line based; `#` in column 0 starts a comment):

    @fn <key> [-> <retname>]          contract for the real function <key>
    @requires <P1,P2,...>             one clause; its text is the following indented lines
    @ensures <P1,P2,...>
    @prologue                         ghost proof block placed at the top of the real body
    @attr <attribute text>            attribute put in front of the function
    @end

    @impl <header>                    ghost items added to the real impl block
    @trait <name>                     ghost members added to the real trait
    @module <path>                    ghost items added at the top of a module ('' = crate root)
    @end

`$1`, `$2`, ... in clause text stand for the function's 1st, 2nd, ... non-self parameter
(so renaming a parameter in /repo does not disturb a contract).
"""
import os
import re
from dataclasses import dataclass, field


@dataclass
class Clause:
    kind: str          # 'requires' | 'ensures'
    props: list
    text: str
    index: int = 0
    src: str = ''      # file:line in the vspec

    def oid(self, fnkey):
        return '%s/%s#%d' % (fnkey, self.kind, self.index)

    def props_for(self, site):
        """property tags that apply when the clause is checked in function `site` (tags may be restricted: C01@ScancodeSet2)"""
        out = []
        for p in self.props:
            if '@' in p:
                name, where = p.split('@', 1)
                if where in site:
                    out.append(name)
            else:
                out.append(p)
        return out


@dataclass
class FnContract:
    key: str
    ret: str = 'r'
    clauses: list = field(default_factory=list)
    prologue: str = ''
    attrs: list = field(default_factory=list)
    src: str = ''
    private: bool = False

    @property
    def props(self):
        s = []
        for c in self.clauses:
            for p in c.props:
                p = p.split('@')[0]
                if p not in s:
                    s.append(p)
        return s


@dataclass
class Ghost:
    kind: str          # 'impl' | 'trait' | 'module'
    target: str
    text: str
    src: str = ''


class SpecError(Exception):
    pass


def parse_file(path, rename=None):
    fns, ghosts = [], []
    cur = None
    curclause = None
    mode = None
    buf = []
    text = open(path, encoding='utf-8').read()
    # private fields that were merely renamed since the contracts were written (same struct, same type, one candidate):
    # the ghost accessors follow the new name
    if rename is not None:
        text = rename(text)
    lines = text.split('\n')

    def flush():
        nonlocal buf, curclause, mode
        text = '\n'.join(buf).rstrip()
        if mode == 'clause':
            curclause.text = text.strip()
            cur.clauses.append(curclause)
        elif mode == 'prologue':
            cur.prologue = text
        elif mode == 'ghost':
            cur.text = text
        buf = []
        curclause = None
        mode = None

    for ln, line in enumerate(lines, 1):
        where = '%s:%d' % (os.path.basename(path), ln)
        if line.startswith('#'):
            continue
        if line.startswith('@'):
            parts = line.split(None, 1)
            d = parts[0]
            arg = parts[1].strip() if len(parts) > 1 else ''
            if d == '@fn':
                if cur is not None:
                    raise SpecError(where + ': missing @end')
                m = re.match(r'^(.*?)(?:\s*->\s*(\w+))?$', arg)
                cur = FnContract(m.group(1).strip(), m.group(2) or 'r', src=where)
            elif d in ('@requires', '@ensures'):
                flush()
                props = [p for p in re.split(r'[,\s]+', arg) if p]
                if not props:
                    raise SpecError(where + ': clause without property tags')
                curclause = Clause(d[1:], props, '', src=where)
                curclause.index = 1 + sum(1 for c in cur.clauses if c.kind == curclause.kind)
                mode = 'clause'
            elif d == '@prologue':
                flush()
                mode = 'prologue'
            elif d == '@attr':
                flush()
                cur.attrs.append(arg)
            elif d == '@private':
                flush()
                cur.private = True
            elif d in ('@impl', '@trait', '@module'):
                if cur is not None:
                    raise SpecError(where + ': missing @end')
                cur = Ghost(d[1:], arg.strip("'\""), '', src=where)
                mode = 'ghost'
            elif d == '@end':
                flush()
                if isinstance(cur, FnContract):
                    fns.append(cur)
                elif isinstance(cur, Ghost):
                    ghosts.append(cur)
                cur = None
            else:
                raise SpecError(where + ': unknown directive ' + d)
        else:
            if mode is not None:
                buf.append(line)
            elif line.strip():
                raise SpecError(where + ': text outside a section')
    if cur is not None:
        raise SpecError(path + ': missing final @end')
    return fns, ghosts


def load_dir(d, rename=None):
    fns, ghosts = {}, []
    for name in sorted(os.listdir(d)):
        if not name.endswith('.vspec'):
            continue
        f, g = parse_file(os.path.join(d, name), rename)
        for c in f:
            if c.key in fns:
                raise SpecError('duplicate contract for ' + c.key)
            fns[c.key] = c
        ghosts.extend(g)
    return fns, ghosts
