def run(prop, info, gen_path, R, seed, extra_cov, undecided_reasons, mine):
    pass
