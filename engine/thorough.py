"""Thorough-tier extras: vacuity probes, assumption scan, solver-seed stability.
(Per-cell obligations and the native stand-ins are switched on by the tier itself.)"""
import os
import re

from . import gen, verus, lemmas
from .props import PROPS

VERIF = os.path.dirname(os.path.dirname(os.path.abspath(__file__)))
REPO = os.environ.get('VERIF_REPO', '/repo')

EXPECTED_ASSUMPTIONS = {
    'assume_specification': 5,   # u8::count_ones, char::from(u8), u16/u8::from(bool), char::from_u32   (Kani-discharged)
    'external_body': 5,          # the five Modifiers predicates               (Kani-discharged)
}


def lemma_probes(prop):
    """for every proof fn with a `requires` block in this property's lemma modules: a twin `requires ... ensures false`"""
    out = []
    ids = []
    for name in PROPS[prop].get('lemmas', []):
        text = open(os.path.join(VERIF, 'lemmas', name + '.rs'), encoding='utf-8').read()
        modname = re.search(r'pub mod (\w+)', text).group(1)
        for m in re.finditer(r'(?:pub )?proof fn (\w+)(<[^>]*>)?\(([^)]*)\)\s*\n\s*requires\n(.*?)\n\s*(?:ensures|decreases|\{)', text, re.S):
            fname, generics, params, req = m.group(1), m.group(2) or '', m.group(3), m.group(4)
            pid = '%s/vacuity-probe/%s' % (prop, fname)
            out.append('/*@LEMMA:%s@*/\nproof fn probe_%s%s(%s)\n    requires\n%s\n    ensures\n        false,\n{\n}\n/*@ENDLEMMA@*/' % (pid, fname, generics, params, req))
            ids.append(pid)
        if out:
            uses = '\n'.join(sorted(set(re.findall(r'^use [^;]+;', text, re.M))))
            out.insert(0, 'pub mod verif_probes_%s {\n%s\nuse crate::%s::*;' % (name, uses, modname))
            out.append('}')
    return '\n'.join(out), ids


def run(prop, info, gen_path, R, seed, extra_cov, undecided_reasons, mine):
    # ---- 1. vacuity: every precondition must be satisfiable
    texts = []
    for name in PROPS[prop].get('lemmas', []) + PROPS[prop].get('support_lemmas', []):
        t, o = lemmas.load(os.path.join(VERIF, 'lemmas', name + '.rs'), prop)
        texts.append(t)
    from . import cells
    pre = gen.generate(REPO, os.path.join(VERIF, 'contracts'))
    for g in PROPS[prop].get('cellgens', []):
        t, o, a = getattr(cells, g)(pre, prop, 'quick', VERIF, ())
        texts.append(t)
    ptext, pids = lemma_probes(prop)
    if ptext:
        texts.append(ptext)
    ppath = os.path.join(os.path.dirname(gen_path), 'probes.rs')
    pinfo = gen.generate(REPO, os.path.join(VERIF, 'contracts'), texts, out_path=ppath, probe=True)
    pres = verus.run(ppath, pinfo, seed=seed, multiple_errors=5)
    failed = set(f.oid for f in pres.failures if f.oid)
    fn_probes = [oid for oid, ob in pinfo.obligations.items() if ob['kind'] == 'probe' and (ob['fn'] in set(x.get('fn') for x in R.values()))]
    vac = [p for p in fn_probes + pids if p not in failed]
    tool = [f for f in pres.failures if f.kind == 'tool']
    extra_cov['vacuity_probes'] = {'generated': len(fn_probes) + len(pids), 'rejected_as_required': len(fn_probes) + len(pids) - len(vac),
                                   'verified_(vacuous)': vac}
    if tool:
        undecided_reasons.append('vacuity probe file could not be processed: ' + tool[0].message[:200])
    elif vac:
        undecided_reasons.append('vacuous precondition: `ensures false` verifies for ' + ', '.join(vac))

    # ---- 2. assumptions actually present in the verified file
    text = info.text
    scan = {
        'assume_specification': len(re.findall(r'\bassume_specification\b', text)),
        'external_body': len(re.findall(r'#\[verifier::external_body\]', text)),
        'assume(': len(re.findall(r'\bassume\s*\(', text)),
        'admit(': len(re.findall(r'\badmit\s*\(', text)),
        'uninterp': len(re.findall(r'\buninterp\b', text)),
    }
    extra_cov['assumption_scan'] = scan
    for k, v in scan.items():
        if v != EXPECTED_ASSUMPTIONS.get(k, 0):
            undecided_reasons.append('assumption scan: %d occurrence(s) of `%s` in the verified file, expected %d' % (v, k, EXPECTED_ASSUMPTIONS.get(k, 0)))

    # ---- 3. stability: a second solver seed must give the same verdict
    res2 = verus.run(gen_path, info, seed=(seed or 0) + 7919, multiple_errors=5)
    f1 = sorted(set(f.oid or f.message for f in mine))
    from .check import classify
    m2, t2, o2 = classify(prop, res2.failures, R, info)
    f2 = sorted(set(f.oid or f.message for f in m2))
    extra_cov['second_seed'] = {'seed': (seed or 0) + 7919, 'same_verdict': f1 == f2, 'verified': res2.verified, 'errors': res2.errors, 'wall_s': round(res2.wall_s, 1)}
    if f1 != f2:
        undecided_reasons.append('unstable: verdict differs between solver seeds (%s vs %s)' % (f1[:3], f2[:3]))


    # ---- 4. second back end (bounded, never counted as proof): Kani/CBMC on the compiled crate, executable specification
    #         vs real code on symbolic inputs, for the scenarios CBMC finishes in seconds here
    scs = PROPS[prop].get('kani_scenarios', [])
    if scs:
        from . import kani
        d, _, _ = kani.prepare(info, subdir='cex')
        rows = []
        for sc in scs:
            r, out = kani.run_harness(d, 'cex::' + sc, timeout=900)
            rows.append({'harness': 'cex::' + sc, 'ok': r['ok'], 'failed': r['failed'], 'cbmc_checks': r['checks'], 'wall_s': r['wall_s'], 'solver_s': r['solver_s'],
                         'bound': {'word': 'all words < 2048 (complete)', 'bits': 'all bit streams of <= 24 bits with one clear() at any position', 'events': 'all sequences of <= 3 key events with any mode / layout-change schedule', 'events_mods': 'as events, modifiers only', 'events_decode': 'as events, decoded keys only'}.get(sc, '')})
            if r['failed']:
                undecided_reasons.append('back ends disagree: Kani harness cex::%s fails although Verus discharged every obligation' % sc)
        extra_cov['kani_second_back_end_(bounded)'] = rows
