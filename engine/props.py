"""Per-property configuration: which lemma modules / cell generators decide it and what it assumes."""

A_VERUS = 'A1: Verus 0.2026.09.13 (Rust->VIR->AIR encoding) and its bundled Z3 are sound'
A_EXTRACT = ('A2: the mechanical extraction (inline `mod x;`, wrap in verus!{}, drop #[cfg(test)] modules / inner docs / crate attrs, add '
             'Structural to PartialEq derives, splice ghost contracts) preserves the meaning of the function bodies; audited each run: every '
             'body of /repo occurs byte-for-byte in the verified file')
A_STRUCT = ('A4: derived PartialEq on the crate\'s enums/structs is structural equality (Verus `Structural`); for the enums that exec code compares '
            'with == / != (KeyCode, HandleControl; also KeyState, KeyEvent, DecodedKey) discharged by Kani on the compiled crate: harness '
            'derived_eq_is_structural, all pairs of variants / payloads - run for the properties whose functions contain such comparisons')
A_PRIV = 'A5: fields of Ps2Decoder/ScancodeSet1/ScancodeSet2/EventDecoder/Keyboard are private and the crate has no `unsafe` (scanned each run), so representation invariants cannot be broken between calls'
A_RUSTC = 'A6: rustc compiles the source to the semantics Verus and Kani assume'
A_COUNT = 'A3a: assume_specification u8::count_ones(x) == sum of the 8 bits (discharged by Kani on the real core library: harness count_ones_is_bit_sum, all 256 inputs)'
A_FROMBOOL = 'A3d: assume_specification <u16|u8 as From<bool>>::from(b) == b as u16|u8 (spellings a refactoring may use; discharged by Kani: harness int_from_bool_is_cast, both inputs)'
A_CHAR = 'A3b: assume_specification <char as From<u8>>::from(x) == x as char (discharged by Kani: harness char_from_u8_is_cast, all 256 inputs)'
A_CHAR32 = ('A3e: assume_specification char::from_u32(x) == Some(x as char) iff x is a Unicode scalar value, else None (a spelling only added code uses; '
            'discharged by Kani: harness char_from_u32_is_checked_cast, all 2^32 inputs)')
A_PRED = ('A3c: the five Modifiers predicates are external_body in Verus (bool `|`,`&`,`^` are outside its dialect); their derived copies are '
          'proved equal to the compiled predicates by Kani for all 512 Modifiers values (harness predicates_equal_copies)')
A_KANI = 'A8: Kani 0.68 / CBMC 6.11 / its SAT back end are sound for the loop-free full-domain harnesses used to discharge A3a-d and A4'
A_REF_SC = 'A7a: the scancode reference table spec/scancodes.json is a faithful transcription of the README conversion table / IBM-Microsoft tables (two README typos corrected and listed as errata)'
A_REF_XL = 'A7b: spec/i8042_xlat.json is the standard i8042 Set 2 -> Set 1 translation table'
A_REF_LAY = 'A7c: the layout reference tables spec/layouts/*.json are faithful transcriptions of the national / ergonomic layouts (uncertain cells are listed and left unconstrained)'

BASE = [A_VERUS, A_EXTRACT, A_STRUCT, A_RUSTC]

PROPS = {
    'C01': {'denotations': 'set2', 'lemmas': ['c01'], 'support_lemmas': ['c07'], 'cellgens': ['scancode_ref'], 'assume': BASE + [A_PRIV, A_REF_SC, A_KANI, A_CHAR32], 'kani': ['derived_eq_is_structural', 'char_from_u32_is_checked_cast'], 'design': 'DESIGN.md section 3, C01',
            'technique': 'Verus: derived table denotations == reference table cell by cell (3x256) + automaton postcondition on the real ScancodeSet2::advance_state + sequence lemmas + verified clients'},
    'C02': {'denotations': 'set1', 'lemmas': ['c02'], 'support_lemmas': ['c07'], 'cellgens': ['scancode_ref'], 'assume': BASE + [A_PRIV, A_REF_SC, A_CHAR32, A_KANI], 'kani': ['char_from_u32_is_checked_cast'], 'design': 'DESIGN.md section 3, C02',
            'technique': 'Verus: derived table denotations == reference table cell by cell (3x256) + automaton postcondition and invariant on the real ScancodeSet1::advance_state + sequence lemmas + verified clients'},
    'C03': {'needs_invariants': False, 'denotations': 'layouts', 'lemmas': [], 'support_lemmas': ['ldefs'], 'cellgens': ['c03_cells'], 'assume': BASE + [A_CHAR, A_PRED, A_KANI, A_REF_LAY, A_CHAR32], 'kani': ['char_from_u8_is_cast', 'predicates_equal_copies', 'derived_eq_is_structural', 'char_from_u32_is_checked_cast'], 'design': 'DESIGN.md section 3, C03',
            'technique': 'Verus lemmas per (layout, key, level) against reference tables of the national layouts, for every modifier state and mode selecting the level, over the derived layout denotations'},
    'C04': {'kani_scenarios': ['events_mods'], 'lemmas': ['c04'], 'assume': BASE + [A_PRIV, A_CHAR32, A_KANI], 'kani': ['char_from_u32_is_checked_cast'], 'design': 'DESIGN.md section 3, C04',
            'technique': 'Verus postcondition mods\' == mods_step(mods, ev) on the real process_keyevent + induction lemma over Seq<KeyEvent> + verified clients'},
    'C05': {'kani_scenarios': ['word'], 'lemmas': ['c05'], 'assume': BASE + [A_COUNT, A_KANI, A_CHAR32], 'kani': ['count_ones_is_bit_sum', 'char_from_u32_is_checked_cast'], 'design': 'DESIGN.md section 3, C05',
            'technique': 'Verus postcondition r == frame_ref(word) on the real check_word/add_word + bit-vector lemmas (round trip, single-bit corruption); Kani discharges the count_ones assumption'},
    'C06': {'support_fns': r'^Ps2Decoder::(check_word|get_bit|has_even_number_bits)$', 'kani_scenarios': ['bits'], 'lemmas': ['c06'], 'assume': BASE + [A_PRIV, A_COUNT, A_FROMBOOL, A_KANI, A_CHAR32], 'kani': ['count_ones_is_bit_sum', 'int_from_bool_is_cast', 'char_from_u32_is_checked_cast'], 'design': 'DESIGN.md section 3, C06',
            'technique': 'Verus invariant wf + step postcondition ps2_step on the real add_bit/clear/new + induction over frames and streams of frames + verified clients'},
    'C07': {'lemmas': ['c07'], 'assume': BASE + [A_PRIV, A_KANI, A_CHAR32], 'kani': ['derived_eq_is_structural', 'char_from_u32_is_checked_cast'], 'design': 'DESIGN.md section 3, C07',
            'technique': 'Verus automaton postconditions on both real advance_state functions + rank/resync lemmas over Seq<u8> by induction'},
    'C08': {'kani_scenarios': ['word', 'bits', 'events'], 'denotations': 'all', 'lemmas': [], 'assume': BASE + [A_PRIV, A_COUNT, A_FROMBOOL, A_CHAR, A_PRED, A_KANI, A_CHAR32], 'kani': ['count_ones_is_bit_sum', 'int_from_bool_is_cast', 'char_from_u8_is_cast', 'predicates_equal_copies', 'derived_eq_is_structural', 'char_from_u32_is_checked_cast'],
            'design': 'DESIGN.md section 3, C08',
            'technique': 'Verus built-in overflow / shift-range / panic-unreachable obligations on every exec function under the representation invariants'},
    'C09': {'needs_invariants': False, 'denotations': 'layouts', 'lemmas': [], 'support_lemmas': ['ldefs'], 'cellgens': ['layout_cells'], 'assume': BASE + [A_CHAR, A_PRED, A_KANI, A_CHAR32], 'kani': ['char_from_u8_is_cast', 'predicates_equal_copies', 'derived_eq_is_structural', 'char_from_u32_is_checked_cast'], 'design': 'DESIGN.md section 3, C09',
            'technique': 'Verus relational lemmas per (layout, key) over the layout denotations derived from the real map_keycode bodies (proved equal to them); Kani discharges the predicate / char::from assumptions'},
    'C10': {'needs_invariants': False, 'denotations': 'layouts', 'lemmas': [], 'support_lemmas': ['ldefs'], 'cellgens': ['layout_cells'], 'assume': BASE + [A_CHAR, A_PRED, A_KANI, A_CHAR32], 'kani': ['char_from_u8_is_cast', 'predicates_equal_copies', 'derived_eq_is_structural', 'char_from_u32_is_checked_cast'], 'design': 'DESIGN.md section 3, C10',
            'technique': 'Verus relational lemmas per (layout, key): CapsLock twin states, over the derived layout denotations; Kani discharges the predicate / char::from assumptions'},
    'C11': {'needs_invariants': False, 'denotations': 'layouts', 'lemmas': ['c11'], 'support_lemmas': ['ldefs'], 'cellgens': ['layout_cells'], 'assume': BASE + [A_CHAR, A_PRED, A_KANI, A_CHAR32], 'kani': ['char_from_u8_is_cast', 'predicates_equal_copies', 'derived_eq_is_structural', 'char_from_u32_is_checked_cast'], 'design': 'DESIGN.md section 3, C11',
            'technique': 'Verus relational lemmas per (layout, key): equal five facts imply equal output, over the derived layout denotations; predicate groupings proved on the derived copies and equated with the compiled predicates by Kani'},
    'C12': {'needs_invariants': False, 'denotations': 'layouts', 'lemmas': [], 'support_lemmas': ['ldefs'], 'cellgens': ['layout_cells'], 'assume': BASE + [A_CHAR, A_PRED, A_KANI, A_CHAR32], 'kani': ['char_from_u8_is_cast', 'predicates_equal_copies', 'derived_eq_is_structural', 'char_from_u32_is_checked_cast'], 'design': 'DESIGN.md section 3, C12',
            'technique': 'Verus existential lemmas per (layout, character) with witnesses hinted by the real code and checked by Verus over the derived layout denotations'},
    'C15': {'needs_invariants': False, 'denotations': 'layouts', 'lemmas': [], 'support_lemmas': ['ldefs'], 'cellgens': ['layout_cells'], 'assume': BASE + [A_CHAR, A_PRED, A_KANI, A_CHAR32], 'kani': ['char_from_u8_is_cast', 'predicates_equal_copies', 'derived_eq_is_structural', 'char_from_u32_is_checked_cast'], 'design': 'DESIGN.md section 3, C15',
            'technique': 'Verus lemmas per (layout, numpad/editing key) for all modifier states and modes over the derived layout denotations'},
    'C16': {'needs_invariants': False, 'denotations': 'layouts', 'lemmas': [], 'support_lemmas': ['ldefs'], 'cellgens': ['layout_cells'], 'assume': BASE + [A_CHAR, A_PRED, A_KANI, A_CHAR32], 'kani': ['char_from_u8_is_cast', 'predicates_equal_copies', 'derived_eq_is_structural', 'char_from_u32_is_checked_cast'], 'design': 'DESIGN.md section 3, C16',
            'technique': 'Verus lemmas per (layout, key): 52 character-less keys raw in every state; raw results are the key itself or its NumLock-off alias, over the derived layout denotations'},
    'C13': {'denotations': 'tables', 'lemmas': ['c13'], 'cellgens': ['xlat_cells'], 'assume': BASE + [A_PRIV, A_REF_XL, A_KANI, A_CHAR32], 'kani': ['derived_eq_is_structural', 'char_from_u32_is_checked_cast'], 'design': 'DESIGN.md section 3, C13',
            'technique': 'Verus lemmas relating the derived denotations of the six real tables through the i8042 translation table (forward, and backward via a verified inverse map) + event-level lemma over the two automaton contracts + verified client'},
    'C14': {'kani_scenarios': ['events_decode'], 'lemmas': ['c14'], 'assume': BASE + [A_PRIV, A_CHAR32, A_KANI], 'kani': ['char_from_u32_is_checked_cast'], 'design': 'DESIGN.md section 3, C14',
            'technique': 'Verus postcondition r == decode_out(layout, mods, mode, ev) on the real process_keyevent, generic in the layout via a ghost trait member + verified clients for mode/layout changes'},
    'C19': {'denotations': 'tables', 'lemmas': ['c19'], 'cellgens': ['injectivity'], 'assume': BASE + [A_PRIV, A_KANI, A_CHAR32], 'kani': ['derived_eq_is_structural', 'char_from_u32_is_checked_cast'], 'design': 'DESIGN.md section 3, C19',
            'technique': 'Verus: injectivity of the six derived table denotations via verified inverse maps (hint from the real code, checked by Verus); make/break pairing lemmas over the automaton contracts + verified clients'},
    'C17': {'support_fns': r'^EventDecoder::process_keyevent', 'needs_invariants': False, 'denotations': 'wrappers', 'lemmas': ['c17'], 'cellgens': ['anylayout_cells'], 'assume': BASE + [A_CHAR, A_PRED, A_KANI, A_CHAR32], 'kani': ['char_from_u8_is_cast', 'predicates_equal_copies', 'derived_eq_is_structural', 'char_from_u32_is_checked_cast'], 'design': 'DESIGN.md section 3, C17',
            'technique': 'Verus lemmas per variant and wrapper form over the denotations of the two real AnyLayout::map_keycode impls (derived from their bodies, proved equal to them) + verified client'},
    'C18': {'support_fns': r'^(EventDecoder|Ps2Decoder|ScancodeSet1|ScancodeSet2|trait ScancodeSet|Default for )', 'lemmas': ['c18'], 'assume': BASE + [A_PRIV, A_COUNT, A_FROMBOOL, A_KANI, A_CHAR32], 'kani': ['count_ones_is_bit_sum', 'int_from_bool_is_cast', 'char_from_u32_is_checked_cast'], 'design': 'DESIGN.md section 3, C18',
            'technique': 'Verus frame postconditions on all nine Keyboard methods (generic in S, L) + verified simulation clients: Keyboard vs three separate stages'},
}
