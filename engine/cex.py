"""Concrete failing inputs for a failed obligation, replayed on the real code.

Verus gives no counterexample. For a *cell* obligation the obligation itself names a finite input domain (one table
entry; one key of one layout under all 512 modifier sets x 2 modes), so the failing input is found by running the
real code natively over that whole domain (replayer `cellcheck`) - complete, and by construction replayed.
For a contract clause on a stateful function a Kani harness asserts the executable rendering of the same clause
over symbolic inputs, Kani's concrete playback gives the values and the replayer runs them natively
(engine/kanicex.py). Where neither produces an input the caller prints `no-failing-input-found`.
"""
import json
import os
import re

from . import native, cells as cellsmod

VERIF = os.path.dirname(os.path.dirname(os.path.abspath(__file__)))
CTX_PREFIX = {'plain': [], 'e0': ['E0'], 'e1': ['E1']}


def _ref():
    return json.load(open(os.path.join(VERIF, 'spec', 'scancodes.json'), encoding='utf-8'))


def native_cmd_for(prop, oid, info):
    """replayer argument list for a cell obligation, or None"""
    oid = oid.split('#')[0]
    parts = oid.split('/')
    if prop in ('C09', 'C10', 'C11') and len(parts) == 3:
        return ['cellcheck', prop, parts[1], parts[2]]
    if prop == 'C12' and len(parts) == 3:
        return ['cellcheck', 'C12', parts[1], parts[2]]
    if prop == 'C16' and len(parts) == 4:
        return ['cellcheck', 'C16', parts[1], parts[2], parts[3]]
    if prop == 'C17' and len(parts) == 3:
        return ['cellcheck', 'C17', parts[1], parts[2]]
    if prop == 'C15' and len(parts) == 3:
        L, k = parts[1], parts[2]
        if k in cellsmod.NUMPAD_DIGITS:
            return ['cellcheck', 'C15', L, k, 'digit', '0x%X' % cellsmod.NUMPAD_DIGITS[k]]
        if k in cellsmod.NUMPAD_OPS:
            return ['cellcheck', 'C15', L, k, 'const', '0x%X' % cellsmod.NUMPAD_OPS[k]]
        if k in cellsmod.EDITING:
            return ['cellcheck', 'C15', L, k, 'const', '0x%X' % cellsmod.EDITING[k]]
        if k == 'NumpadEnter':
            return ['cellcheck', 'C15', L, k, 'enter']
        if k == 'NumpadPeriod':
            return ['cellcheck', 'C15', L, k, 'decimal', '0x%X' % cellsmod.DECIMAL.get(L, 0x2E)]
    if prop == 'C03' and len(parts) == 4:
        L, k, lv = parts[1], parts[2], parts[3]
        ref = json.load(open(os.path.join(VERIF, 'spec', 'layouts', L + '.json'), encoding='utf-8'))['keys']
        lvl = {'base': 0, 'shift': 1, 'altgr': 2}[lv]
        v = ref[k][lvl]
        acc = 'none' if not v or v == '?' else ','.join('%x' % ord(c) for c in v)
        return ['cellcheck', 'C03', L, k, str(lvl), acc]
    return None


def scancode_cell(prop, oid, info, binpath):
    parts = oid.split('#')[0].split('/')
    ref = _ref()
    if prop in ('C01', 'C02') and len(parts) == 4:
        setn, ctx, code = parts[1], parts[2], parts[3]
        cv = int(code, 16)
        key = ref[setn][ctx].get(code)
        if setn == 'set1' and cv >= 0x80:
            return None   # Set 1 tables are only consulted with the low seven bits: this cell is not reachable through the API
        is_prefix = (setn == 'set2' and (cv == 0xF0 or (ctx == 'plain' and cv in (0xE0, 0xE1)))) or (setn == 'set1' and ctx == 'plain' and cv in (0xE0, 0xE1))
        if is_prefix:
            # the make path treats this byte as a prefix; the table entry is observable through the break path
            seq = CTX_PREFIX[ctx] + ['F0', code[2:]]
            expected = ('%s/Up' % key) if key else 'Err:UnknownKeyCode'
        else:
            seq = CTX_PREFIX[ctx] + [code[2:]]
            expected = ('%s/Down' % key) if key else 'Err:UnknownKeyCode'
            if setn == 'set2' and ctx == 'plain' and code in ('0x00', '0xAA'):
                expected = '%s/SingleShot' % key
        cmd = ['bytes', setn[-1]] + seq
        rc, out, err = native.run(binpath, cmd)
        observed = out.split(' ')[-1] if out else err
        return {'input': {'scancode_set': setn, 'bytes': ['0x' + b for b in seq]}, 'expected': expected, 'observed': observed,
                'native_cmd': cmd, 'reproduced': observed != expected}
    if prop == 'C13' and len(parts) == 4:
        direction, ctx, code = parts[1], parts[2], parts[3]
        x = json.load(open(os.path.join(VERIF, 'spec', 'i8042_xlat.json'), encoding='utf-8'))['xlat']
        tables = native.hints(info, 'tables')
        if direction == 'forward':
            c1 = x[code]
            s2 = CTX_PREFIX[ctx] + [code[2:]]
            s1 = CTX_PREFIX[ctx] + [c1[2:]]
            o2 = native.run(binpath, ['bytes', '2'] + s2)[1].split(' ')[-1]
            o1 = native.run(binpath, ['bytes', '1'] + s1)[1].split(' ')[-1]
            return {'input': {'set2_bytes': ['0x' + b for b in s2], 'set1_bytes (i8042 translation)': ['0x' + b for b in s1]},
                    'expected': 'identical key events', 'observed': 'Set 2: %s ; Set 1: %s' % (o2, o1),
                    'native_cmd': ['bytes', '2'] + s2, 'native_cmd2': ['bytes', '1'] + s1,
                    # the forward direction only speaks about keys Set 2 expresses
                    'reproduced': o2.endswith('/Down') and o1 != o2}
        else:
            s1 = CTX_PREFIX[ctx] + [code[2:]]
            o1 = native.run(binpath, ['bytes', '1'] + s1)[1].split(' ')[-1]
            if o1.startswith('Err') or o1 == 'None' or not o1.endswith('/Down'):
                return {'input': {'set1_bytes': ['0x' + b for b in s1]}, 'expected': 'n/a', 'observed': o1, 'native_cmd': ['bytes', '1'] + s1, 'reproduced': False}
            where, bad = [], False
            for c2ctx in ('plain', 'e0', 'e1'):
                for c in range(256):
                    v = tables['set2/' + c2ctx][c]
                    if v.startswith('Err') or v == 'None' or v.endswith('/Up'):
                        continue
                    if v.split('/')[0] == o1.split('/')[0]:
                        tr = x.get('0x%02X' % c)
                        where.append('%s 0x%02X (i8042 gives %s %s)' % (c2ctx, c, c2ctx, tr or 'no translation'))
                        if c2ctx != ctx or tr is None or int(tr, 16) != int(code, 16):
                            bad = True
            return {'input': {'set1_bytes': ['0x' + b for b in s1]}, 'expected': 'the key\'s Set 2 sequence translates to exactly this Set 1 sequence',
                    'observed': 'Set 1 gives %s; Set 2 expresses that key at: %s' % (o1, '; '.join(where) or 'nowhere'),
                    'native_cmd': ['bytes', '1'] + s1, 'reproduced': bad}
    if prop == 'C19' and len(parts) == 4:
        setn, ctx, code = parts[1], parts[2], int(parts[3], 16)
        tables = native.hints(info, 'tables')
        me = tables['%s/%s' % (setn, ctx)][code]
        if me.startswith('Err') or me == 'None' or me.endswith('/Up'):
            # not a make code of a key (Set 1 bytes >= 0x80 are break codes; prefix bytes give None): nothing to be injective about
            return {'input': {'scancode_set': setn, 'bytes': []}, 'expected': 'n/a', 'observed': me, 'native_cmd': ['bytes', setn[-1]] + CTX_PREFIX[ctx] + ['%02X' % code], 'reproduced': False}
        key = me.split('/')[0]
        same = []
        for c2ctx in ('plain', 'e0', 'e1'):
            for c in range(256):
                v = tables['%s/%s' % (setn, c2ctx)][c]
                if not v.startswith('Err') and v != 'None' and not v.endswith('/Up') and v.split('/')[0] == key and (c2ctx, c) != (ctx, code):
                    same.append('%s 0x%02X' % (c2ctx, c))
        seq = CTX_PREFIX[ctx] + ['%02X' % code]
        return {'input': {'scancode_set': setn, 'bytes': ['0x' + b for b in seq]}, 'expected': 'no other sequence of the set denotes %s' % key,
                'observed': '%s is also produced by: %s' % (key, ', '.join(same) or '(none found)'), 'native_cmd': ['bytes', setn[-1]] + seq,
                'reproduced': bool(same)}
    return None


def find(prop, failure, R, info):
    oid = failure.oid or ''
    ob = R.get(oid, {})
    try:
        binpath = native.build(info)
    except native.NativeError as e:
        return {'counterexample': None, 'counterexample_search': 'replayer does not build: %s' % e}
    if ob.get('kind') == 'cell' or re.match(r'^C\d\d/', oid):
        cmd = native_cmd_for(prop, oid, info)
        if cmd:
            rc, out, err = native.run(binpath, cmd)
            if out.startswith('FAILS'):
                return {'counterexample': {'found_by': 'exhaustive native enumeration of the cell\'s whole input domain on the real code (Verus gives no counterexample)',
                                           'description': out, 'native_cmd': cmd},
                        'native_replay': {'cmd': cmd, 'output': out, 'reproduced': True}}
            if out.startswith('HOLDS'):
                return {'counterexample': None, 'native_replay': {'cmd': cmd, 'output': out, 'reproduced': False},
                        'spurious': True,
                        'counterexample_search': 'the real code satisfies this cell on its whole finite input domain (native exhaustive run): the verifier\'s rejection is not a violation'}
        sc = scancode_cell(prop, oid, info, binpath)
        if sc:
            if sc['reproduced']:
                return {'counterexample': {'found_by': 'the obligation names the concrete input; executed natively on the real code', **sc},
                        'native_replay': {'cmd': sc['native_cmd'], 'output': sc['observed'], 'reproduced': True}}
            return {'counterexample': None, 'native_replay': {'cmd': sc['native_cmd'], 'output': sc['observed'], 'reproduced': False}, 'spurious': True,
                    'counterexample_search': 'the real code gives the expected result for this cell: the verifier\'s rejection is not a violation'}
    # contract clauses / lemmas: Kani concrete playback
    try:
        from . import kanicex
        return kanicex.find(prop, failure, R, info, binpath)
    except ImportError:
        return {'counterexample': None, 'counterexample_search': 'no generator for this obligation kind'}
