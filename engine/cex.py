"""Counterexample search for a failed obligation (Kani concrete playback) + native replay."""


def find(prop, failure, R, info):
    return {'counterexample': None, 'counterexample_search': 'no generator for this obligation kind'}
