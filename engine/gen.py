"""Mechanical extraction of /repo/src into one Verus file + contract splicing.

What is kept, dropped and added is documented in DESIGN.md section 2.1 and is
re-stated in every evidence file (`extraction`).
"""
import hashlib
import json
import os
import re

from .rustlex import scan, lex, ExtractError, Tok, match_close
from . import vspec

MOD_PRELUDE = "use vstd::prelude::*;\n#[allow(unused_imports)]\nuse crate::vghost::*;\n"
HEADER = """#![allow(unused_imports, dead_code, unused_variables, non_snake_case, unused_parens, unreachable_patterns, unused_braces)]
use vstd::prelude::*;
verus! {
"""
FOOTER = "\n} // verus!\nfn main() {}\n"


def sha(s):
    return hashlib.sha256(s.encode('utf-8')).hexdigest()


class Edit:
    __slots__ = ('start', 'end', 'text', 'prio')

    def __init__(self, start, end, text, prio=0):
        self.start, self.end, self.text, self.prio = start, end, text, prio


def apply_edits(src, edits):
    # edits must not overlap, except pure insertions at the same offset (ordered by prio)
    edits = sorted(edits, key=lambda e: (e.start, e.end, e.prio))
    out = []
    pos = 0
    for e in edits:
        if e.start < pos:
            raise ExtractError('overlapping edits at %d' % e.start)
        out.append(src[pos:e.start])
        out.append(e.text)
        pos = e.end
    out.append(src[pos:])
    return ''.join(out)


def param_names(src, fn):
    """names of the non-self parameters, and their full text"""
    a, b = fn.params_span
    inner = src[a + 1:b]
    parts, depth, cur = [], 0, ''
    for ch in inner:
        if ch in '(<[{':
            depth += 1
        elif ch in ')>]}':
            depth -= 1
        if ch == ',' and depth == 0:
            parts.append(cur)
            cur = ''
        else:
            cur += ch
    if cur.strip():
        parts.append(cur)
    names, texts = [], []
    for p in parts:
        t = p.strip()
        if not t:
            continue
        if re.match(r'^(&\s*)?(\'\w+\s+)?(mut\s+)?self$', t):
            continue
        nm = t.split(':', 1)[0].strip()
        nm = re.sub(r'^mut\s+', '', nm)
        names.append(nm)
        texts.append(t)
    return names, texts


def subst_params(text, names, where):
    def rep(m):
        i = int(m.group(1))
        if i < 1 or i > len(names):
            raise ExtractError('%s: contract refers to parameter $%d but the function has %d' % (where, i, len(names)))
        return names[i - 1]
    return re.sub(r'\$(\d+)', rep, text)


# ---------------------------------------------------------------------------- derived denotations

def body_tokens(src, fn):
    return lex(src[fn.body_start:fn.body_end])


def eliminate_guard_returns(text):
    """`{ ... if C { return E; } REST }`  ->  `{ ... if C { E } else { REST } }` for guard returns that are statements of the
    function's top-level block (the only early-exit shape that has a direct expression form). Anything else is left alone
    (and then rejected by the caller)."""
    toks = lex(text)
    sigi = [k for k, t in enumerate(toks) if t.kind not in ('ws', 'lcomment', 'bcomment')]
    if not sigi or toks[sigi[0]].text != '{':
        return text
    # walk the statements of the top-level block
    depth = 0
    x = 1
    stmt_start = True
    while x < len(sigi) - 1:
        t = toks[sigi[x]]
        if stmt_start and t.kind == 'id' and t.text == 'if':
            # find the block of this `if`
            y = x + 1
            while y < len(sigi) and toks[sigi[y]].text != '{':
                if toks[sigi[y]].text in ('(', '['):
                    y = sigi.index(match_close(toks, sigi[y]))
                y += 1
            if y >= len(sigi):
                return text
            kclose = match_close(toks, sigi[y])
            yc = sigi.index(kclose)
            inner = [toks[sigi[z]] for z in range(y + 1, yc)]
            after = toks[sigi[yc + 1]].text if yc + 1 < len(sigi) else ''
            if inner and inner[0].text == 'return' and inner[-1].text == ';' and after != 'else' \
                    and not any(tt.kind == 'id' and tt.text == 'return' for tt in inner[1:]):
                ret_tok = inner[0]
                semi_tok = inner[-1]
                end_tok = toks[sigi[-1]]      # the closing brace of the function body
                head = text[:ret_tok.pos]
                expr = text[ret_tok.pos + len('return'):semi_tok.pos]
                rest = text[toks[kclose].pos + 1:end_tok.pos]
                new = head + expr + text[semi_tok.pos + 1:toks[kclose].pos + 1] + ' else {' + rest + '}' + text[end_tok.pos:]
                # the rest may contain further guard returns: it is now a block of its own
                k0 = len(head + expr + text[semi_tok.pos + 1:toks[kclose].pos + 1] + ' else ')
                sub = eliminate_guard_returns(new[k0:k0 + len(rest) + 2])
                return new[:k0] + sub + new[k0 + len(rest) + 2:]
            x = yc + 1
            stmt_start = toks[sigi[x]].text != 'else' if x < len(sigi) else True
            continue
        if t.text in ('{', '(', '['):
            x = sigi.index(match_close(toks, sigi[x])) + 1
            stmt_start = True if t.text == '{' else False
            continue
        stmt_start = t.text == ';'
        x += 1
    return text


def derive_layout_copy(src, fn, helpers=()):
    """spec copy of a map_keycode body: `.map_keycode(` -> `.spec_map(`, `<int>.into()` -> `(<int>u8 as char)`"""
    body_text = src[fn.body_start:fn.body_end]
    if re.search(r'\breturn\b', body_text):
        body_text = eliminate_guard_returns(body_text)
    toks = lex(body_text)
    sigi = [k for k, t in enumerate(toks) if t.kind not in ('ws', 'lcomment', 'bcomment')]
    out = [t.text for t in toks]
    n_into = n_call = 0
    for x, k in enumerate(sigi):
        t = toks[k]
        if t.kind == 'id' and t.text == 'map_keycode' and x > 0 and toks[sigi[x - 1]].text in ('.', ':') \
                and x + 1 < len(sigi) and toks[sigi[x + 1]].text == '(':
            # method call `x.map_keycode(..)` or fully qualified `<T as KeyboardLayout>::map_keycode(..)` / `T::map_keycode(..)`
            out[k] = 'spec_map'
            n_call += 1
        if t.kind == 'id' and t.text in helpers and x + 1 < len(sigi) and toks[sigi[x + 1]].text == '(':
            # call of an auto-derived helper: name its (public, ghost) denotation directly - the exec helper may be private
            out[k] = 'spec_' + t.text
        if t.kind == 'id' and t.text == 'into' and x >= 2 and toks[sigi[x - 1]].text == '.' \
                and toks[sigi[x - 2]].kind == 'num' and x + 2 < len(sigi) \
                and toks[sigi[x + 1]].text == '(' and toks[sigi[x + 2]].text == ')':
            num = toks[sigi[x - 2]].text
            if not re.match(r'^(0x[0-9A-Fa-f_]+|[0-9_]+)$', num):
                raise ExtractError('layout %s: unsupported literal %s.into()' % (fn.key, num))
            out[sigi[x - 2]] = '(' + num + 'u8 as char)'
            out[sigi[x - 1]] = ''
            out[k] = ''
            out[sigi[x + 1]] = ''
            out[sigi[x + 2]] = ''
            n_into += 1
        elif t.kind == 'id' and t.text == 'into':
            raise ExtractError('layout %s: unsupported use of .into()' % fn.key)
        if t.kind == 'id' and t.text in ('return', 'loop', 'while', 'for', 'unsafe', 'mut'):
            raise ExtractError('layout %s: construct `%s` has no spec counterpart' % (fn.key, t.text))
    return ''.join(out), {'map_keycode_calls': n_call, 'into_literals': n_into}


def pred_copy(src, fn, ctx, info):
    """textual copy where the rules apply; otherwise (e.g. `matches!`) a behavioural one: a decision tree over the nine flags
    synthesised from the real predicate's complete truth table (512 rows, dumped by the replayer). Either way it is an
    untrusted hint: Kani proves `real(m) == copy(m)` for all 512 values on the compiled crate."""
    try:
        return derive_pred_copy(src, fn)
    except ExtractError:
        bits = (ctx.get('pred_hints') or {}).get(fn.name)
        if bits is None:
            if fn.name not in info.needs_pred_hints:
                info.needs_pred_hints.append(fn.name)
            raise
        from . import synth
        try:
            return synth.pred_body(bits)
        except Exception as e:
            raise ExtractError('predicate %s: behavioural synthesis failed: %r' % (fn.key, e))


def derive_pred_copy(src, fn):
    """spec copy of a Modifiers predicate. Verus cannot read `|`, `&`, `^` on bool, so the body - a single expression over
    those operators, method calls, field accesses, `!` and parentheses - is re-emitted fully parenthesised with
    `&` -> `&&`, `^` -> `!=`, `|` -> `||`, following Rust's precedence (`&` binds tighter than `^`, `^` tighter than `|`).
    Kani proves the compiled predicate equal to this copy for all 512 Modifiers values, so a wrong translation is caught."""
    toks = [t for t in body_tokens(src, fn) if t.kind not in ('ws', 'lcomment', 'bcomment')]
    if not toks or toks[0].text != '{' or toks[-1].text != '}':
        raise ExtractError('predicate %s: unexpected body shape' % fn.key)
    toks = toks[1:-1]

    def single(k):
        t = toks[k]
        if t.kind != 'p' or t.text not in '|&^':
            return False
        nxt = k + 1 < len(toks) and toks[k + 1].text == t.text and toks[k + 1].pos == t.pos + 1
        prv = k > 0 and toks[k - 1].text == t.text and toks[k - 1].pos == t.pos - 1
        return not (nxt or prv)
    if not any(single(k) for k in range(len(toks))):
        # only logical operators: the body already is legal spec syntax
        return src[fn.body_start:fn.body_end]
    for t in toks:
        if t.kind == 'id' and t.text in ('return', 'loop', 'while', 'for', 'unsafe', 'mut', 'let', 'if', 'match', 'else'):
            raise ExtractError('predicate %s: construct `%s` not supported' % (fn.key, t.text))
        if t.kind == 'p' and t.text in ';{}=<>+-*/%':
            raise ExtractError('predicate %s: token `%s` not supported in a predicate body' % (fn.key, t.text))

    def split_level(ts, op):
        """split a token list at depth-0 occurrences of the single-character operator `op` (not doubled)"""
        parts, cur, depth = [], [], 0
        k = 0
        while k < len(ts):
            t = ts[k]
            if t.kind == 'p' and t.text in '([':
                depth += 1
            elif t.kind == 'p' and t.text in ')]':
                depth -= 1
            if depth == 0 and t.kind == 'p' and t.text == op:
                doubled = (k + 1 < len(ts) and ts[k + 1].text == op and ts[k + 1].pos == t.pos + 1) or (k > 0 and ts[k - 1].text == op and ts[k - 1].pos == t.pos - 1)
                if doubled:
                    raise ExtractError('predicate %s: `%s%s` mixed with bitwise operators is not supported' % (fn.key, op, op))
                parts.append(cur)
                cur = []
            else:
                cur.append(t)
            k += 1
        parts.append(cur)
        return parts

    def atom(ts):
        if not ts:
            raise ExtractError('predicate %s: empty operand' % fn.key)
        # strip one pair of enclosing parentheses
        if ts[0].text == '(':
            depth = 0
            for k, t in enumerate(ts):
                if t.text == '(':
                    depth += 1
                elif t.text == ')':
                    depth -= 1
                    if depth == 0:
                        if k == len(ts) - 1:
                            return '(' + expr(ts[1:-1]) + ')'
                        break
        if ts[0].text == '!':
            return '!' + atom(ts[1:])
        out = ''
        k = 0
        while k < len(ts):
            t = ts[k]
            if t.text == '(':
                # argument list of a method call: translate its contents too
                depth, m = 0, k
                while m < len(ts):
                    if ts[m].text == '(':
                        depth += 1
                    elif ts[m].text == ')':
                        depth -= 1
                        if depth == 0:
                            break
                    m += 1
                inner = ts[k + 1:m]
                out += '(' + (expr(inner) if inner else '') + ')'
                k = m + 1
                continue
            if t.kind == 'p' and t.text in '|&^':
                raise ExtractError('predicate %s: could not isolate operands' % fn.key)
            out += t.text
            k += 1
        return out

    def expr(ts):
        ors = split_level(ts, '|')
        if len(ors) > 1:
            return ' || '.join('(' + expr(o) + ')' for o in ors)
        xors = split_level(ts, '^')
        if len(xors) > 1:
            r = '(' + expr(xors[0]) + ')'
            for o in xors[1:]:
                r = '(' + r + ' != (' + expr(o) + '))'
            return r
        ands = split_level(ts, '&')
        if len(ands) > 1:
            return ' && '.join('(' + expr(a) + ')' for a in ands)
        return atom(ts)

    return '{ ' + expr(toks) + ' }'


def auto_derivable(src, fn):
    """a contract-less function whose body could be a spec expression: no mutation, early exit, loop, `?` or macro call"""
    ptext = src[fn.params_span[0]:fn.params_span[1]]
    if re.search(r'&\s*(\'\w+\s+)?mut\b', ptext) or fn.owner.startswith('trait ') or fn.owner.startswith('Default for '):
        return False
    toks = [t for t in body_tokens(src, fn) if t.kind not in ('ws', 'lcomment', 'bcomment')]
    for i, t in enumerate(toks):
        if t.kind == 'id' and t.text in ('mut', 'return', 'loop', 'while', 'for', 'unsafe', 'break', 'continue', 'async', 'await', 'move'):
            return False
        if t.kind == 'p' and t.text == '?':
            return False
        if t.kind == 'p' and t.text == '!' and i > 0 and toks[i - 1].kind == 'id' and i + 1 < len(toks) and toks[i + 1].text in '([{':
            return False   # macro invocation
        if t.kind == 'p' and t.text == '|' and i + 1 < len(toks) and (toks[i + 1].kind == 'id' or toks[i + 1].text == '|') and i > 0 and toks[i - 1].text in ('=', '(', ','):
            return False   # closure
    return True


# ---------------------------------------------------------------------------- the generator

class GenInfo:
    def __init__(self):
        self.text = ''
        self.functions = []        # dict(key, file, has_contract, props, body_sha, prologue)
        self.obligations = {}      # oid -> dict(kind, props, fn, text)
        self.dropped = []          # descriptions of dropped spans
        self.files = []
        self.unsafe = 0
        self.loops = 0
        self.derived = []          # dict(key, kind, stats)
        self.keycodes = []
        self.layouts = []          # type names implementing KeyboardLayout (unit structs)
        self.line_map = {}         # filled by finalize(): line -> list of marker ids
        self.fn_ranges = []        # (start_line, end_line, key)
        self.used_contracts = set()
        self.used_ghosts = set()
        self.opaque = []           # functions left unverified because the verifier could not read them
        self.underivable = []
        self.pub_fields = []
        self.invariant_audit = []
        self.needs_table_hints = False
        self.needs_layout_hints = []
        self.needs_pred_hints = []
        self.opaque_consts = []
        self.field_renames = {}
        self.dropped_clauses = []
        self.dropped_ghosts = []
        self.excluded = []
        self.excluded_blocks = []
        self.manual_structural = []
        self.lost = []             # (contract key, props) whose function no longer exists
        self.lost_ghosts = []


def render_file(path, module, moddir, ctx):
    src = open(path, encoding='utf-8').read()
    sc, toks = scan(src, module)
    info, fncontracts, ghosts = ctx['info'], ctx['fncontracts'], ctx['ghosts']
    fo = ctx.get('follow')
    if fo is not None:
        # functions that were merely renamed / moved keep the key (and denotation name) they had at the pinned commit
        for f in sc.fns:
            ck = fo.canon.get(f.key)
            if ck:
                f.real_name = f.name
                f.canon_key = ck
                f.name = ck.rsplit('::', 1)[-1]
    info.files.append({'path': path, 'sha256': sha(src), 'module': module})
    info.pub_fields += scan_pub_fields(src)
    info.unsafe += sc.unsafe_count
    info.loops += sc.loops
    edits = []
    rel = os.path.relpath(path, ctx['repo'])

    for a, b in sc.drop_spans:
        txt = src[a:b]
        kind = 'inner doc comment' if txt.startswith('//!') else ('inner attribute ' + txt.strip() if txt.startswith('#!') else '#[cfg(test)] module')
        info.dropped.append({'file': rel, 'what': kind, 'bytes': b - a})
        edits.append(Edit(a, b, ''))

    # private constants become `pub` in the verified text (visibility only; needed when a derived - public, ghost -
    # denotation mentions them)
    # a constant whose initialiser the verifier rejects (e.g. `(1 << BITS) - 1`: it cannot see that nothing overflows; rustc's
    # const evaluator already refused to compile the crate if anything did) is left uninterpreted: `const NAME` in `opaque`
    hidden = {}
    for k in ctx.get('opaque', ()):
        if k.startswith('const '):
            for m in re.finditer(r'(?m)^[ \t]*((?:pub(?:\([^)]*\))?\s+)?(?:const|static)\s+%s\s*:)' % re.escape(k[len('const '):]), src):
                if not any(a <= m.start(1) < b for a, b in sc.drop_spans):
                    hidden[m.start(1)] = k
    # `static` items: inside verus!{} a static needs Verus' own `exec static .. ensures ..` syntax (a plain one is rejected, a
    # `pub` one with a message about `open`); they are hidden from the verifier (`#[verifier::external]`, visibility left as it
    # is) and the functions that read them are then left unverified by the usual escalation
    statics = set()
    for m in re.finditer(r'(?m)^[ \t]*((?:pub(?:\([^)]*\))?\s+)?static\s+(?:mut\s+)?\w+\s*:)', src):
        if any(a <= m.start(1) < b for a, b in sc.drop_spans) or in_comment_or_string(toks, m.start(1)):
            continue
        if any(f.has_body and f.body_start <= m.start(1) < f.body_end for f in sc.fns):
            continue
        statics.add(m.start(1))
        edits.append(Edit(m.start(1), m.start(1), '#[verifier::external] '))
        info.opaque_consts.append('static ' + src[m.start(1):m.end(1)].split(':')[0].split()[-1])
        hidden.pop(m.start(1), None)
    for pos in sc.private_consts:
        if pos in statics:
            continue
        if not any(a <= pos < b for a, b in sc.drop_spans):
            if pos in hidden:
                info.opaque_consts.append(hidden.pop(pos))
                edits.append(Edit(pos, pos, '#[verifier::external_body] pub '))
            else:
                edits.append(Edit(pos, pos, 'pub '))
    for pos, k in hidden.items():
        info.opaque_consts.append(k)
        edits.append(Edit(pos, pos, '#[verifier::external_body] '))
    # `const X: &T = ..` (elided lifetime, 'static by the language rules): inside verus!{} the elision is rejected for
    # associated constants, so the lifetime is written out (no change of meaning)
    # (every elided reference lifetime in the item's type, e.g. `[&dyn Trait; 10]`, not only a leading one)
    for m in re.finditer(r'\b(?:const|static)\s+(?:mut\s+)?\w+\s*:', src):
        if any(a <= m.start() < b for a, b in sc.drop_spans) or in_comment_or_string(toks, m.end() - 1):
            continue
        depth, j = 0, m.end()
        while j < len(src) and not (depth == 0 and src[j] in '=;'):
            if src[j] in '<[(':
                depth += 1
            elif src[j] in '>])':
                depth -= 1
            elif src[j] == '&' and not re.match(r"&\s*'", src[j:j + 8]):
                edits.append(Edit(j + 1, j + 1, "'static "))
            j += 1
    for d in sc.derives:
        inside_drop = any(a <= d.start < b for a, b in sc.drop_spans)
        if inside_drop:
            continue
        if 'PartialEq' in d.traits and 'Structural' not in d.traits:
            # the type this derive sits on, and the type names its fields mention
            mt = re.match(r'(?:\s|///[^\n]*\n|//[^\n]*\n|#\[[^\]]*\])*(?:pub(?:\([^)]*\))?\s+)?(?:enum|struct)\s+(\w+)', src[d.end:])
            if mt:
                ctx.setdefault('peq_types', set()).add(mt.group(1))
            if module and mt:
                # in a nested module Verus 0.2026.09.13 dies on `derive(Structural)` (internal error: thir_body query for
                # the derive's anonymous const), so the marker is implemented by hand next to the type (still assumption
                # A4). The derive's own check - every field type is structural too - is done by the generator at the end:
                # field types must be primitives or crate types that derive PartialEq themselves.
                tname = mt.group(1)
                k0 = d.end + mt.end()
                rest = src[k0:]
                body = ''
                mb = re.match(r'\s*(?:<[^{;]*>)?\s*(?:where[^{;]*)?([{(;])', rest)
                if mb and mb.group(1) != ';':
                    close = match_close(toks, next(ix for ix, t in enumerate(toks) if t.pos == k0 + mb.start(1)))
                    body = src[k0 + mb.start(1):toks[close].pos + 1]
                variants_or_fields = re.sub(r'//[^\n]*', '', body)
                idents = set(re.findall(r':\s*&?\s*(?:\w+\s*::\s*)*(\w+)', variants_or_fields))
                for inner in re.findall(r'\(([^()]*)\)', variants_or_fields[1:] if variants_or_fields.startswith('{') else variants_or_fields):
                    for part in inner.split(','):
                        mm = re.match(r'\s*(?:pub(?:\([^)]*\))?\s+)?&?\s*(?:\w+\s*::\s*)*(\w+)', part)
                        if mm:
                            idents.add(mm.group(1))
                ctx.setdefault('manual_structural_fields', {})[tname] = sorted(idents)
                ctx.setdefault('manual_structural', []).append('crate::%s::%s' % (module, tname))
                edits.append(Edit(d.start, d.start, '#[verifier::external]\nunsafe impl verus_builtin::Structural for %s {}\n' % tname))
                continue
            edits.append(Edit(d.inner_end, d.inner_end, ', Structural'))

    for m in sc.moddecls:
        if m.cfg_test:
            edits.append(Edit(m.start, m.end, ''))
            continue
        cands = [os.path.join(moddir, m.name + '.rs'), os.path.join(moddir, m.name, 'mod.rs')]
        found = [c for c in cands if os.path.exists(c)]
        if len(found) != 1:
            raise ExtractError('module %s: expected exactly one of %s' % (m.name, cands))
        sub = render_file(found[0], (module + '::' if module else '') + m.name, os.path.join(moddir, m.name), ctx)
        edits.append(Edit(m.start, m.end, '%smod %s {\n%s%s\n}\n' % (m.vis, m.name, MOD_PRELUDE, sub)))

    # impl blocks are bracketed by markers, so that a compile error that points at the block itself (not into one of its
    # functions) can be attributed; a block named in `drop` ("blk:<name>") is left out of the verified text as a whole
    seen_hdr = {}
    for b in sc.blocks:
        if b.kind != 'impl' or any(a <= b.start < e for a, e in sc.drop_spans):
            continue
        n = seen_hdr.get(b.header, 0)
        seen_hdr[b.header] = n + 1
        bname = '%s|%s|%d' % (module, b.header, n)
        if ('blk:' + bname) in ctx.get('drop', ()):
            ctx.setdefault('excluded_blocks', set()).add(b.start)
            edits.append(Edit(b.start, b.brace_close + 1, '/* impl %s: left out of the verified text */' % b.header, prio=5))
            info.excluded_blocks.append(bname)
        else:
            edits.append(Edit(b.start, b.start, '/*@BLK:%s@*/' % bname, prio=-9))
            edits.append(Edit(b.brace_close + 1, b.brace_close + 1, '/*@ENDBLK@*/', prio=9))
    # ghost items in impl / trait blocks
    for b in sc.blocks:
        if any(a <= b.start < e for a, e in sc.drop_spans):
            continue
        if b.start in ctx.get('excluded_blocks', ()):
            continue
        for gi, g in enumerate(ghosts):
            if g.kind in ('impl', 'trait') and ((g.kind == 'trait' and b.kind == 'trait' and b.header == 'trait ' + g.target)
                                                 or (g.kind == 'impl' and b.kind == 'impl' and b.header == g.target)):
                if g.src in ctx.get('drop', ()):
                    info.used_ghosts.add(gi)
                    if g.src not in info.dropped_ghosts:
                        info.dropped_ghosts.append(g.src)
                    continue
                edits.append(Edit(b.brace_open + 1, b.brace_open + 1, '\n/*@GHOST:%s@*/\n%s\n/*@ENDGHOST@*/' % (g.src, generic_subst(g.text, b, fo)), prio=-1))
                info.used_ghosts.add(gi)
        if b.kind == 'impl' and b.header.startswith('KeyboardLayout for '):
            info.layouts.append(b.header[len('KeyboardLayout for '):])

    for gi, g in enumerate(ghosts):
        if g.kind == 'module' and g.target == module:
            edits.append(Edit(0, 0, '/*@GHOST:%s@*/\n%s\n/*@ENDGHOST@*/\n' % (g.src, g.text), prio=-1))
            info.used_ghosts.add(gi)

    for m_ in re.finditer(r'^[ \t]*(pub(?:\([^)]*\))?[ \t]+)?(?:struct|enum)[ \t]+(\w+)', src, re.M):
        if not m_.group(1):
            ctx['private_types'].add(m_.group(2))
    # contract-less pure helpers of this file (their calls inside derived copies name the denotation directly)
    for f in sc.fns:
        if any(a <= f.start < e for a, e in sc.drop_spans):
            continue
        if f.has_body and f.key not in fncontracts and f.ret_span and not f.owner.startswith('KeyboardLayout for ') \
                and not (f.owner in ('ScancodeSet1', 'ScancodeSet2') and f.name.startswith('map_')) and f.owner != 'Modifiers' \
                and f.key not in ctx.get('opaque', ()) and auto_derivable(src, f):
            ctx['helpers'].add(f.name)
    # functions
    for f in sc.fns:
        if any(a <= f.start < e for a, e in sc.drop_spans):
            continue
        key = f.key
        names, ptexts = param_names(src, f)
        c = fncontracts.get(key)
        clauses = []   # (kind, oid, text)
        attrs = []
        prologue = ''
        ret = 'r'
        pre_items = ''
        props = []
        if c:
            info.used_contracts.add(key)
            ret = c.ret
            props = list(c.props)
            attrs += c.attrs
            blk = next((b for b in sc.blocks if b.kind == 'impl' and b.brace_open < f.start < b.brace_close), None)
            prologue = generic_subst(subst_params(c.prologue, names, c.src), blk, fo) if c.prologue else ''
            for cl in c.clauses:
                oid = cl.oid(key)
                text = generic_subst(subst_params(cl.text, names, cl.src), blk, fo)
                if oid in ctx.get('drop', ()):
                    # this clause no longer compiles against the changed code (a representation its ghost view does not fit):
                    # pruned so that the rest can be decided; the properties tagged on it become undecided
                    info.dropped_clauses.append((oid, [p.split('@')[0] for p in cl.props]))
                    continue
                clauses.append((cl.kind, oid, text))
                info.obligations[oid] = {'kind': 'clause', 'clause': cl.kind, 'props': [p.split('@')[0] for p in cl.props], 'fn': key, 'text': text, 'src': cl.src,
                                         'restricted': {p.split('@')[0]: p.split('@')[1] for p in cl.props if '@' in p}}
        # derived denotations
        body = src[f.body_start:f.body_end] if f.has_body else None
        sigtext = src[f.sig_start:f.sig_end]
        if ('fn:' + key) in ctx.get('drop', ()) and f.has_body:
            # the very syntax of this item is rejected by the `verus!` macro (e.g. a pattern in parameter position) and no
            # attribute can hide it: the item - for a trait impl the whole impl block - is left out of the verified text.
            # It is recorded as unverified: C08 and every property that depends on it are undecided.
            blk = next((b for b in sc.blocks if b.kind == 'impl' and b.brace_open < f.start < b.brace_close), None)
            if blk is not None and ' for ' in f.owner:
                if blk.start not in ctx.setdefault('excluded_blocks', set()):
                    ctx['excluded_blocks'].add(blk.start)
                    edits.append(Edit(blk.start, blk.brace_close + 1, '/* impl %s: left out of the verified text */' % blk.header, prio=5))
            elif ' for ' not in f.owner:
                edits.append(Edit(f.start, f.body_end, '/* fn %s: left out of the verified text */' % key, prio=5))
            info.opaque.append(key)
            info.excluded.append(key)
            info.functions.append({'key': key, 'file': rel, 'has_body': False, 'has_contract': bool(fncontracts.get(key)), 'props': [], 'excluded': True,
                                   'calls': [], 'mut_self': False, 'returns_self': False, 'body_sha256': None, 'body': None, 'prologue': False, 'external_body': True})
            if key in fncontracts:
                info.used_contracts.add(key)
            continue
        if blk_excluded(sc, f, ctx) or any(b.start in ctx.get('excluded_blocks', ()) and b.brace_open < f.start < b.brace_close for b in sc.blocks):
            # a sibling in an impl block that was left out as a whole
            info.opaque.append(key)
            info.excluded.append(key)
            info.functions.append({'key': key, 'file': rel, 'has_body': False, 'has_contract': bool(fncontracts.get(key)), 'props': [], 'excluded': True,
                                   'calls': [], 'mut_self': False, 'returns_self': False, 'body_sha256': None, 'body': None, 'prologue': False, 'external_body': True})
            continue
        if key in ctx.get('external', ()) and f.has_body:
            # even the signature is outside the verifier's dialect (e.g. a function-pointer parameter): hide the function
            # from Verus altogether; its callers then fail to resolve it and become opaque in the next round
            edits.append(Edit(f.sig_start, f.sig_start, '/*@FN:%s@*/#[verifier::external]\n    ' % key))
            edits.append(Edit(f.body_end, f.body_end, '/*@ENDFN@*/'))
            info.opaque.append(key)
            info.functions.append({'key': key, 'file': rel, 'has_body': True, 'has_contract': bool(fncontracts.get(key)), 'props': [],
                                   'calls': [], 'mut_self': False, 'returns_self': False,
                                   'body_sha256': sha(src[f.body_start:f.body_end]), 'body': src[f.body_start:f.body_end], 'prologue': False, 'external_body': True})
            if key in fncontracts:
                info.used_contracts.add(key)
            continue
        opaque = key in ctx.get('opaque', ())
        behavioural = None
        is_real_layout = f.has_body and f.owner.startswith('KeyboardLayout for ') and f.name == 'map_keycode' and 'AnyLayout' not in f.owner
        if not opaque and f.has_body:
            # a body the derivation rules cannot translate is treated like one the verifier cannot read
            try:
                if f.owner.startswith('KeyboardLayout for ') and f.name == 'map_keycode':
                    derive_layout_copy(src, f, ctx['helpers'])
                elif f.owner == 'Modifiers' and f.name.startswith('is_') and not names:
                    pred_copy(src, f, ctx, info)
            except ExtractError as e:
                opaque = True
                info.underivable.append('%s: %s' % (key, e))
                if not is_real_layout:
                    ctx['opaque'].add(key)
        if is_real_layout and (opaque or key in ctx.get('behavioural', ())) and key not in ctx.get('opaque', ()) and len(names) == 3:
            # no textual denotation: try a behavioural one, synthesised from the real function's complete table (untrusted
            # hint; Verus must prove the exec body equal to it)
            lname = f.owner[len('KeyboardLayout for '):]
            table = (ctx.get('layout_hints') or {}).get(lname)
            if table is None:
                info.needs_layout_hints.append(lname)
            else:
                from . import synth
                try:
                    behavioural = synth.spec_body(table, ctx['keycodes_for_synth'], names)
                except Exception as e:
                    info.underivable.append('%s: behavioural synthesis failed: %r' % (key, e))
            if behavioural is None:
                opaque = True
                ctx['opaque'].add(key)
            else:
                opaque = False
        if behavioural is not None:
            spec_sig = src[f.sig_start:f.sig_end]
            k0 = spec_sig.index('fn map_keycode')
            spec_sig = spec_sig[:k0] + 'open spec fn spec_map' + spec_sig[k0 + len('fn map_keycode'):]
            pre_items = '/*@DERIVED:%s@*/\n    %s%s\n/*@ENDDERIVED@*/\n    ' % (key, spec_sig, behavioural[0])
            oid = key + '/derived'
            clauses.append(('ensures', oid, '%s == self.spec_map(%s)' % (ret, ', '.join(names))))
            info.obligations[oid] = {'kind': 'derived', 'props': [], 'fn': key, 'text': 'exec body == behavioural denotation (decision trees synthesised from the real function\'s complete table)'}
            info.derived.append({'fn': key, 'kind': 'layout', 'how': 'behavioural: %d-leaf decision trees from the 124 x 1024 table of the real function' % behavioural[1]})
        elif opaque and f.has_body:
            # the verifier could not read this function (construct outside its dialect): leave it unverified (external_body)
            # with an uninterpreted denotation, so that the rest of the crate can still be decided; every property that
            # depends on it is reported undecided by the caller
            attrs += ['#[verifier::external_body]']
            info.opaque.append(key)
            if f.owner.startswith('KeyboardLayout for ') and f.name == 'map_keycode':
                spec_sig = src[f.sig_start:f.sig_end]
                k0 = spec_sig.index('fn map_keycode')
                spec_sig = spec_sig[:k0] + 'uninterp spec fn spec_map' + spec_sig[k0 + len('fn map_keycode'):]
                pre_items = '/*@DERIVED:%s@*/\n    %s;\n/*@ENDDERIVED@*/\n    ' % (key, spec_sig.rstrip())
            elif f.owner in ('ScancodeSet1', 'ScancodeSet2') and re.match(r'^map_\w*scancode$', f.name) and len(names) == 1:
                rettype = src[f.ret_span[0]:f.ret_span[1]]
                pre_items = '/*@DERIVED:%s@*/\n    pub uninterp spec fn spec_%s(%s) -> %s;\n/*@ENDDERIVED@*/\n    ' % (key, f.name, ', '.join(ptexts), rettype)
                clauses.append(('ensures', key + '/assumed', '%s == Self::spec_%s(%s)' % (ret, f.name, names[0])))
            if f.owner.startswith('KeyboardLayout for ') and f.name == 'map_keycode':
                clauses.append(('ensures', key + '/assumed', '%s == self.spec_map(%s)' % (ret, ', '.join(names))))
            info.obligations[key + '/assumed'] = {'kind': 'assumed', 'props': [], 'fn': key, 'text': 'opaque: function outside the verifier\'s dialect, left unverified'}
        elif f.has_body and f.owner.startswith('KeyboardLayout for ') and f.name == 'map_keycode':
            copy, stats = derive_layout_copy(src, f, ctx['helpers'])
            spec_sig = src[f.sig_start:f.sig_end]
            k0 = spec_sig.index('fn map_keycode')
            spec_sig = spec_sig[:k0] + 'open spec fn spec_map' + spec_sig[k0 + len('fn map_keycode'):]
            pre_items = '/*@DERIVED:%s@*/\n    %s%s\n/*@ENDDERIVED@*/\n    ' % (key, spec_sig, copy)
            oid = key + '/derived'
            clauses.append(('ensures', oid, '%s == self.spec_map(%s)' % (ret, ', '.join(names))))
            info.obligations[oid] = {'kind': 'derived', 'props': [], 'fn': key, 'text': 'exec body == derived spec copy'}
            info.derived.append({'fn': key, 'kind': 'layout', **stats})
        elif f.has_body and f.owner in ('ScancodeSet1', 'ScancodeSet2') and re.match(r'^map_\w*scancode$', f.name) and len(names) == 1:
            rettype = src[f.ret_span[0]:f.ret_span[1]]
            spec_body = body
            how = 'table'
            btoks = [t for t in body_tokens(src, f) if t.kind not in ('ws', 'lcomment', 'bcomment')]
            if any(t.kind == 'id' and t.text in ('return', 'mut', 'loop', 'while', 'for', 'if') for t in btoks) or any(t.text == '?' for t in btoks):
                # not a plain `match code { .. }` any more: use a *behavioural* denotation instead of a textual one - a lookup
                # table generated from the real code's own answers (replayer dump through the public API; an untrusted hint).
                # Verus then proves the exec body equal to it for all 256 codes, whatever the body's shape.
                hints = ctx.get('table_hints')
                setn = 'set1' if f.owner == 'ScancodeSet1' else 'set2'
                ctxn = {'map_scancode': 'plain', 'map_extended_scancode': 'e0', 'map_extended2_scancode': 'e1'}.get(f.name)
                if hints and ctxn:
                    arms = []
                    for code, v in enumerate(hints['%s/%s' % (setn, ctxn)]):
                        if '/' in v and not v.startswith('Err') and (setn == 'set2' or code < 0x80):
                            arms.append('            0x%02Xu8 => Ok(KeyCode::%s),' % (code, v.split('/')[0]))
                    spec_body = '{\n        match %s {\n%s\n            _ => Err(Error::UnknownKeyCode),\n        }\n    }' % (names[0], '\n'.join(arms))
                    how = 'table (behavioural: lookup table hinted by the real code, proved equal to the exec body by Verus)'
                else:
                    info.needs_table_hints = True
            pre_items = '/*@DERIVED:%s@*/\n    pub open spec fn spec_%s(%s) -> %s %s\n/*@ENDDERIVED@*/\n    ' % (key, f.name, ', '.join(ptexts), rettype, spec_body)
            oid = key + '/derived'
            clauses.append(('ensures', oid, '%s == Self::spec_%s(%s)' % (ret, f.name, names[0])))
            info.obligations[oid] = {'kind': 'derived', 'props': [], 'fn': key, 'text': 'exec body == derived spec copy'}
            info.derived.append({'fn': key, 'kind': 'table', 'how': how})
        elif f.has_body and f.owner == 'Modifiers' and f.name.startswith('is_') and not names:
            copy = pred_copy(src, f, ctx, info)
            pre_items = '/*@DERIVED:%s@*/\n    pub open spec fn spec_%s(&self) -> bool %s\n/*@ENDDERIVED@*/\n    ' % (key, f.name, copy)
            attrs += ['#[verifier::external_body]', '#[verifier::when_used_as_spec(spec_%s)]' % f.name]
            oid = key + '/assumed'
            clauses.append(('ensures', oid, '%s == self.spec_%s()' % (ret, f.name)))
            info.obligations[oid] = {'kind': 'assumed', 'props': [], 'fn': key, 'text': 'external_body: real predicate == derived copy (discharged by Kani on the compiled crate)'}
            info.derived.append({'fn': key, 'kind': 'predicate', 'copy': copy.strip()})
        elif f.has_body and not c and f.ret_span and key not in ctx.get('no_auto', ()) and auto_derivable(src, f):
            # a function nobody wrote a contract for (typically a helper a refactoring extracted): if its body is a pure
            # expression it gets a derived denotation like the layouts and tables, so that callers can still be decided
            try:
                copy, stats = derive_layout_copy(src, f, ctx['helpers'])
            except ExtractError:
                copy = None
            if copy is not None:
                rettype = src[f.ret_span[0]:f.ret_span[1]]
                ptext = src[f.params_span[0] + 1:f.params_span[1]].strip()
                selfcall = 'self.' if re.match(r'^&\s*self\b|^self\b', ptext) else ('Self::' if f.owner and not f.owner.startswith('trait ') else '')
                # a method of a private type keeps a private denotation (a public one may not look into a private datatype)
                owner_ty = f.owner.split(' for ')[-1].lstrip('&')
                vis = '' if owner_ty in ctx['private_types'] else 'pub open '
                # a body that reads a private field of a public type cannot be an `open` denotation ("field expression for an
                # opaque datatype"): it stays visible inside its module only, which is where its callers are
                if vis and reads_private_field(src, owner_ty, src[f.body_start:f.body_end]):
                    vis = 'pub closed '
                pre_items = '/*@DERIVED:%s@*/\n    %sspec fn spec_%s(%s) -> %s %s\n/*@ENDDERIVED@*/\n    ' % (key, vis, f.name, ptext, rettype, copy)
                attrs += ['#[verifier::when_used_as_spec(spec_%s)]' % f.name]
                oid = key + '/derived'
                clauses.append(('ensures', oid, '%s == %sspec_%s(%s)' % (ret, selfcall, f.name, ', '.join(names))))
                info.obligations[oid] = {'kind': 'derived', 'props': [], 'fn': key, 'text': 'exec body == derived spec copy (auto-derived helper)'}
                info.derived.append({'fn': key, 'kind': 'helper'})

        # vacuity probe (thorough tier): `assert(false)` at the entry of the real body must be REJECTED, i.e. the
        # precondition is satisfiable (an `ensures false` would be assumed by callers and hide their probes)
        if ctx.get('probe') and f.has_body and clauses and not any('external_body' in a for a in attrs):
            oid = key + '/vacuity-probe'
            prologue = 'proof { assert(false); } // CELL %s\n' % oid + prologue
            info.obligations[oid] = {'kind': 'probe', 'props': [], 'fn': key, 'text': 'must fail: assert(false) at the entry of %s under its precondition' % key}
        # signature rewrite
        new_sig = sigtext
        if f.ret_span and clauses:
            a, b = f.ret_span[0] - f.sig_start, f.ret_span[1] - f.sig_start
            new_sig = sigtext[:a] + '(' + ret + ': ' + sigtext[a:b] + ')' + sigtext[b:]
        new_sig = new_sig.rstrip()
        ctext = ''
        for kind in ('requires', 'ensures'):
            cl = [x for x in clauses if x[0] == kind]
            if cl:
                ctext += '\n        ' + kind + '\n'
                for (_, oid, text) in cl:
                    ctext += '            /*@OB:%s@*/ %s,\n' % (oid, text)
        head = '/*@FN:%s@*/' % key
        if pre_items:
            head = pre_items + head
        if attrs:
            head += '\n    ' + '\n    '.join(attrs) + '\n    '
        if f.has_body:
            new_body = '{' + (('\n' + prologue) if prologue else '') + body[1:]
            edits.append(Edit(f.sig_start, f.body_end, head + new_sig + ctext + ('    ' if ctext else ' ') + new_body + '/*@ENDFN@*/'))
        else:
            edits.append(Edit(f.sig_start, f.body_end, head + new_sig + ctext + ';' + '/*@ENDFN@*/'))
        ptxt = src[f.params_span[0]:f.params_span[1]]
        rtxt = src[f.ret_span[0]:f.ret_span[1]] if f.ret_span else ''
        called = set()
        if f.has_body:
            bt = [t for t in body_tokens(src, f) if t.kind not in ('ws', 'lcomment', 'bcomment')]
            for bi in range(len(bt) - 1):
                if bt[bi].kind == 'id' and bt[bi + 1].text == '(':
                    # `Q::name(`: keep the qualifier (Self or a type name) so that the call graph need not confuse every `new`
                    qual = bt[bi - 3].text if bi >= 3 and bt[bi - 1].text == ':' and bt[bi - 2].text == ':' and bt[bi - 3].kind == 'id' else ''
                    called.add((qual + '::' if qual else '') + bt[bi].text)
        owner_ty = f.owner.split(' for ')[-1]
        info.functions.append({'key': key, 'file': rel, 'has_body': f.has_body, 'has_contract': bool(c), 'props': props,
                               'real_name': f.real_name or f.name, 'calls': sorted(called), 'is_pub': src[f.sig_start:f.sig_start + 3] == 'pub' or ' for ' in f.owner,
                               'mut_self': bool(re.search(r'&\s*(\'\w+\s+)?mut\s+self', ptxt)),
                               'returns_self': bool(re.search(r'\bSelf\b', rtxt)) or (owner_ty != '' and bool(re.search(r'\b%s\b' % re.escape(owner_ty), rtxt))),
                               'body_sha256': sha(body) if body else None, 'body': body, 'prologue': bool(prologue),
                               'external_body': any('external_body' in a for a in attrs)})

    # KeyCode variants (for the cell generators)
    if module == '':
        m = re.search(r'pub enum KeyCode\s*\{', src)
        if not m:
            raise ExtractError('enum KeyCode not found')
        ktoks = lex(src[m.end() - 1:])
        from .rustlex import sig as _sig
        kend = match_close(ktoks, 0)
        names_ = []
        depth = 0
        prev_sig = None
        for t in ktoks[1:kend]:
            if t.kind in ('ws', 'lcomment', 'bcomment'):
                continue
            if t.kind == 'p' and t.text in '([{':
                depth += 1
            elif t.kind == 'p' and t.text in ')]}':
                depth -= 1
            elif depth == 0 and t.kind == 'id' and (prev_sig is None or prev_sig.text in (',', ']')):
                names_.append(t.text)
            prev_sig = t
        info.keycodes = names_
    # an impl block that is left out as a whole swallows every edit placed inside it (ghost members, block markers,
    # contract clauses of its functions) - the decision to leave it out may come after those were queued
    whole = [e for e in edits if e.prio == 5 and e.text.startswith('/* impl ')]
    if whole:
        def swallowed(e):
            for w in whole:
                if e.start == e.end == w.end:
                    if e.text == '/*@ENDBLK@*/':
                        return True
                elif w.start <= e.start and e.end <= w.end:
                    return True
            return False
        edits = [e for e in edits if e in whole or not swallowed(e)]
    return apply_edits(src, edits)


MARK = re.compile(r'/\*@(OB|FN|ENDFN|GHOST|ENDGHOST|DERIVED|ENDDERIVED|LEMMA|ENDLEMMA|BLK|ENDBLK):?(.*?)@\*/')
CELL = re.compile(r'//\s*CELL\s+(.+?)\s*$')


def generate(repo, contracts_dir, lemma_texts=(), out_path=None, opaque=(), probe=False, external=(), table_hints=None, layout_hints=None, behavioural=(), pred_hints=None, drop=()):
    info = GenInfo()
    from . import follow
    fo = follow.compute(repo)
    info.follow = fo
    info.ghost_kinds = {}
    info.field_renames = fo.fields
    fncontracts, ghosts = vspec.load_dir(contracts_dir, fo.rewrite_spec_text)
    info.ghost_kinds = {g.src: g.kind for g in ghosts}
    ctx = {'info': info, 'fncontracts': fncontracts, 'ghosts': ghosts, 'repo': repo, 'opaque': set(opaque), 'probe': probe, 'helpers': set(), 'external': set(external), 'table_hints': table_hints, 'layout_hints': layout_hints, 'pred_hints': pred_hints, 'drop': set(drop), 'behavioural': set(behavioural), 'keycodes_for_synth': [], 'private_types': set(), 'follow': fo}
    srcdir = os.path.join(repo, 'src')
    try:
        libsrc = open(os.path.join(srcdir, 'lib.rs'), encoding='utf-8').read()
        m = re.search(r'pub enum KeyCode\s*\{(.*?)\n\}', libsrc, re.S)
        ctx['keycodes_for_synth'] = re.findall(r'^\s{4}([A-Z]\w*)\s*(?:=\s*[^,]+)?,', m.group(1), re.M) if m else []
    except Exception:
        ctx['keycodes_for_synth'] = []
    body = render_file(os.path.join(srcdir, 'lib.rs'), '', srcdir, ctx)
    # lost anchors: contracts / ghost sections whose item no longer exists. They are recorded, not fatal: the caller
    # reports every property that depended on them as undecided (exit 2) and runs its bounded stand-ins.
    info.lost = [(k, fncontracts[k].props) for k in fncontracts if k not in info.used_contracts]
    info.private_contracts = set(k for k in fncontracts if fncontracts[k].private)
    info.lost_ghosts = [g.src + ' (' + g.kind + ' ' + g.target + ')' for i, g in enumerate(ghosts) if i not in info.used_ghosts]
    info.manual_structural = list(ctx.get('manual_structural', []))
    PRIMS = {'u8', 'u16', 'u32', 'u64', 'u128', 'usize', 'i8', 'i16', 'i32', 'i64', 'i128', 'isize', 'bool', 'char'}
    for tname, idents in ctx.get('manual_structural_fields', {}).items():
        bad = [x for x in idents if x not in PRIMS and x not in ctx.get('peq_types', set())]
        if bad:
            raise ExtractError('type %s (nested module) derives PartialEq over field types %s that are not known to be structural (assumption A4)' % (tname, bad))
    text = HEADER + body + '\n' + '\n'.join(lemma_texts) + FOOTER
    info.text = text
    finalize(info)
    audit(info)
    if out_path:
        with open(out_path, 'w', encoding='utf-8') as fh:
            fh.write(text)
    return info


def finalize(info):
    """compute line -> marker maps from the final text"""
    info.ob_lines = {}       # line -> oid
    info.cell_lines = {}     # line -> cell id
    info.fn_ranges = []      # (l0, l1, key)
    info.region_ranges = []  # (l0, l1, kind, name)  kind in ghost/derived/lemma
    stack = []
    for ln, line in enumerate(info.text.split('\n'), 1):
        for m in MARK.finditer(line):
            k, v = m.group(1), m.group(2)
            if k == 'OB':
                info.ob_lines[ln] = v
                stack.append(['OBX', v, ln])  # clause may span lines: closed by next marker
            elif k == 'FN':
                stack.append(['FN', v, ln])
            elif k in ('GHOST', 'DERIVED', 'LEMMA', 'BLK'):
                stack.append([k, v, ln])
            elif k == 'ENDFN':
                # close pending OBX entries
                while stack and stack[-1][0] == 'OBX':
                    stack.pop()
                t = stack.pop()
                assert t[0] == 'FN', t
                info.fn_ranges.append((t[2], ln, t[1]))
            elif k in ('ENDGHOST', 'ENDDERIVED', 'ENDLEMMA', 'ENDBLK'):
                while stack and stack[-1][0] == 'OBX':
                    stack.pop()
                t = stack.pop()
                assert t[0] == k[3:], (t, k)
                info.region_ranges.append((t[2], ln, t[0].lower(), t[1]))
        m = CELL.search(line)
        if m:
            info.cell_lines[ln] = m.group(1)
    # multi-line clauses: attribute following lines (until the next OB marker / body start) to the clause
    lines = info.text.split('\n')
    ob_sorted = sorted(info.ob_lines)
    for ln in ob_sorted:
        j = ln + 1
        while j <= len(lines) and j not in info.ob_lines:
            s = lines[j - 1].strip()
            if s.startswith('requires') or s.startswith('ensures') or s.startswith('{') or '/*@' in s or s.endswith('{'):
                break
            info.ob_lines.setdefault(j, info.ob_lines[ln])
            j += 1


def audit(info):
    """every function body of /repo must occur verbatim in the generated file (after the optional ghost prologue)"""
    bad = []
    n = 0
    for f in info.functions:
        if not f['has_body']:
            continue
        tail = f['body'][1:]
        if f['external_body']:
            # still present verbatim (not verified by Verus; discharged by Kani)
            pass
        if tail not in info.text:
            bad.append(f['key'])
        n += 1
    if bad:
        raise ExtractError('extraction audit failed: bodies not verbatim in generated file: ' + ', '.join(bad))
    info.bodies_verbatim = n
    dig = hashlib.sha256()
    for f in sorted(info.functions, key=lambda x: x['key']):
        if f['has_body']:
            dig.update(f['key'].encode())
            dig.update(f['body_sha256'].encode())
    info.bodies_digest = dig.hexdigest()
    if info.unsafe:
        raise ExtractError('the crate now contains `unsafe`: invariants can no longer be assumed to hold between calls (assumption A5)')
    # A5: representation invariants hold in every reachable state only if (i) the fields are private and (ii) every
    # constructor / mutator of the types that carry an invariant is under contract
    info.invariant_audit = []
    for f in info.functions:
        owner = f['key'].rsplit('::', 1)[0]
        ty = owner.split(' for ')[-1]
        # (a private helper is reachable only through its callers: a contracted caller is verified against the helper's
        # absent contract, i.e. knowing nothing about the state it leaves, so only functions visible from outside count)
        if ty in INVARIANT_TYPES and f['has_body'] and (f.get('mut_self') or f.get('returns_self')) and not f['has_contract'] \
                and f.get('is_pub') and not f['key'].startswith('ScancodeSet for '):
            info.invariant_audit.append('%s mutates or constructs %s but has no contract: the invariant is not known to hold after it' % (f['key'], ty))
    for name in info.pub_fields:
        info.invariant_audit.append('struct %s has a public field: its invariant can be broken from outside' % name)


INVARIANT_TYPES = ('Ps2Decoder', 'ScancodeSet1', 'ScancodeSet2', 'EventDecoder', 'Keyboard')


def blk_excluded(sc, f, ctx):
    blk = next((b for b in sc.blocks if b.kind == 'impl' and b.brace_open < f.start < b.brace_close), None)
    if blk is None or ' for ' not in f.owner:
        return False
    # is any method of this trait impl marked for exclusion?
    for g in sc.fns:
        if blk.brace_open < g.start < blk.brace_close and ('fn:' + g.key) in ctx.get('drop', ()):
            return True
    return False


def in_comment_or_string(toks, pos):
    for t in toks:
        if t.pos <= pos < t.pos + len(t.text):
            return t.kind in ('lcomment', 'bcomment', 'str', 'char', 'rawstr')
        if t.pos > pos:
            break
    return False


def generic_subst(text, block, fo):
    """contract text names the type parameters as the struct declaration at the pinned commit did (`L`, `S`); an impl block
    that names them differently gets the text with its own names (positional)"""
    if block is None or fo is None or not text:
        return text
    hdr = block.raw_header
    # the self type: after ` for ` if this is a trait impl
    m = re.search(r'\bfor\s+(.*)$', hdr, re.S)
    ty = m.group(1) if m else re.sub(r'^\s*impl\s*(<[^{]*?>\s*)?(?=\w)', '', hdr, count=1, flags=re.S)
    m = re.match(r'\s*&?\s*(?:\w+\s*::\s*)*(\w+)\s*<([^<>]*)>', ty)
    if not m:
        return text
    base = fo.generics.get(m.group(1))
    args = [a.strip() for a in m.group(2).split(',') if a.strip()]
    if not base or len(base) != len(args) or not all(re.match(r'^\w+$', a) for a in args):
        return text
    ren = {o: n for o, n in zip(base, args) if o != n}
    if not ren:
        return text
    return re.sub(r'\b(%s)\b' % '|'.join(re.escape(o) for o in ren), lambda mm: ren[mm.group(1)], text)


def reads_private_field(src, owner_ty, body):
    """does `body` contain `self.<f>` for a field f that struct `owner_ty` (declared in this file) does not declare `pub`?"""
    m = re.search(r'\bstruct\s+%s\b[^{;(]*\{' % re.escape(owner_ty.split('<')[0]), src)
    if not m:
        return False
    depth, end = 0, None
    for j in range(m.end() - 1, len(src)):
        if src[j] == '{':
            depth += 1
        elif src[j] == '}':
            depth -= 1
            if depth == 0:
                end = j
                break
    if end is None:
        return False
    private = set()
    for fm in re.finditer(r'(?m)^\s*(pub(?:\([^)]*\))?\s+)?(\w+)\s*:', src[m.end():end]):
        if not fm.group(1):
            private.add(fm.group(2))
    return any(x in private for x in re.findall(r'\bself\s*\.\s*(\w+)\b(?!\s*\()', body))


def scan_pub_fields(src):
    """names of invariant-carrying structs that declare a `pub` field"""
    toks = lex(src)
    S = [t for t in toks if t.kind not in ('ws', 'lcomment', 'bcomment')]
    out = []
    for i, t in enumerate(S):
        if t.kind == 'id' and t.text == 'struct' and i + 1 < len(S) and S[i + 1].text in INVARIANT_TYPES:
            j = i + 2
            while j < len(S) and S[j].text not in ('{', ';', '('):
                j += 1
            if j < len(S) and S[j].text == '{':
                depth = 0
                k = j
                while k < len(S):
                    if S[k].text == '{':
                        depth += 1
                    elif S[k].text == '}':
                        depth -= 1
                        if depth == 0:
                            break
                    elif depth == 1 and S[k].kind == 'id' and S[k].text == 'pub':
                        out.append(S[i + 1].text)
                        break
                    k += 1
    return out
