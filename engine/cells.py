"""Generators for per-cell lemma modules.

Each generator returns (module_text, obligations, aux).  Obligations of kind 'coarse' quantify over a whole unit
(one table, one layout); when one fails the check re-generates that unit cell by cell (`refine`) so that the failing
cells are named.  Thorough tier is always cell by cell.  Cells listed as open known findings are excluded from the
coarse lemma and asserted individually, together with a `#observed` twin that pins the recorded wrong value, so a
*different* wrong value on the same cell is a new violation.
"""
import json
import os

from .rustlex import ExtractError

TABLE_FN = {'plain': 'map_scancode', 'e0': 'map_extended_scancode', 'e1': 'map_extended2_scancode'}


def load_findings(verif):
    p = os.path.join(verif, 'known_findings.json')
    if not os.path.exists(p):
        return []
    return [f for f in json.load(open(p, encoding='utf-8')).get('findings', []) if f.get('status') == 'open']


def chunks(lst, n):
    for i in range(0, len(lst), n):
        yield lst[i:i + n]


def res_expr(key):
    return 'Ok::<KeyCode, Error>(KeyCode::%s)' % key if key else 'Err::<KeyCode, Error>(Error::UnknownKeyCode)'


def check_tables_exist(info, sets=('ScancodeSet1', 'ScancodeSet2')):
    have = set(d['fn'] for d in info.derived if d['kind'] == 'table')
    for s in sets:
        for fn in TABLE_FN.values():
            if '%s::%s' % (s, fn) not in have:
                raise ExtractError('lost-anchor: table function %s::%s not found' % (s, fn))


def ref_fn_text(name, table, keycodes):
    arms = []
    for code in sorted(table, key=lambda c: int(c, 16)):
        key = table[code]
        if key not in keycodes:
            raise ExtractError('reference table names key %s which is not a KeyCode variant any more' % key)
        arms.append('        %su8 => Ok(KeyCode::%s),' % (code, key))
    return 'pub open spec fn %s(code: u8) -> Result<KeyCode, Error> {\n    match code {\n%s\n        _ => Err(Error::UnknownKeyCode),\n    }\n}\n' % (name, '\n'.join(arms))


def scancode_ref(info, prop, tier, verif, refine=()):
    """C01 (Set 2) / C02 (Set 1): every cell of the three derived table denotations equals the reference table"""
    setn = {'C01': 'set2', 'C02': 'set1'}[prop]
    ty = {'set2': 'ScancodeSet2', 'set1': 'ScancodeSet1'}[setn]
    check_tables_exist(info, (ty,))
    ref = json.load(open(os.path.join(verif, 'spec', 'scancodes.json'), encoding='utf-8'))
    known = {f['obligation']: f for f in load_findings(verif) if f['property'] == prop}
    mod = 'verif_%s_cells' % prop.lower()
    out = ['pub mod %s {' % mod, 'use vstd::prelude::*;', 'use crate::*;', '']
    obs = {}
    ncells = 0
    for ctx in ('plain', 'e0', 'e1'):
        out.append(ref_fn_text('ref_%s_%s' % (setn, ctx), ref[setn][ctx], info.keycodes))
    for ctx in ('plain', 'e0', 'e1'):
        kn_ = [c for c in range(256) if '%s/%s/%s/0x%02X' % (prop, setn, ctx, c) in known]
        out.append('/// cells listed as open known findings (excluded from the quantified lemmas, asserted one by one below)')
        out.append('pub open spec fn gap_%s_%s(c: u8) -> bool {\n    %s\n}\n' % (setn, ctx, ' || '.join('c == 0x%02Xu8' % c for c in kn_) if kn_ else 'false'))
    for ctx in ('plain', 'e0', 'e1'):
        unit = '%s/table/%s/%s' % (prop, setn, ctx)
        fn = '%s::spec_%s' % (ty, TABLE_FN[ctx])
        refn = 'ref_%s_%s' % (setn, ctx)
        codes = list(range(256))
        cell_id = lambda c: '%s/%s/%s/0x%02X' % (prop, setn, ctx, c)
        kn = [c for c in codes if cell_id(c) in known]
        percell = tier == 'thorough' or unit in refine
        if not percell:
            out.append('/*@LEMMA:%s@*/' % unit)
            out.append('pub proof fn table_%s_%s()\n    ensures\n        forall|c: u8| !gap_%s_%s(c) ==> (#[trigger] %s(c)) == %s(c),\n{\n}' % (
                setn, ctx, setn, ctx, fn, refn))
            out.append('/*@ENDLEMMA@*/')
            obs[unit] = {'kind': 'coarse', 'unit': unit, 'props': [prop], 'cells': 256 - len(kn),
                         'text': 'forall code: %s(code) == reference %s/%s (%d cells)' % (fn, setn, ctx, 256 - len(kn))}
            ncells += 256 - len(kn)
            todo = kn
        else:
            # the quantified lemma is still needed by the sequence lemmas: state it from the cells (exempting known cells)
            out.append('/*@LEMMA:%s@*/' % unit)
            out.append('pub proof fn table_%s_%s()\n    ensures\n        forall|c: u8| !gap_%s_%s(c) ==> (#[trigger] %s(c)) == %s(c),\n{\n}' % (
                setn, ctx, setn, ctx, fn, refn))
            out.append('/*@ENDLEMMA@*/')
            obs[unit] = {'kind': 'coarse', 'unit': unit, 'props': [prop], 'cells': 0,
                         'text': 'forall code: %s(code) == reference %s/%s' % (fn, setn, ctx)}
            todo = codes
        # one proof fn per cell: after a failed assert Verus assumes it, which would make later asserts in the same
        # function vacuous when the assumed fact is false
        for c in todo:
            cid = cell_id(c)
            key = ref[setn][ctx].get('0x%02X' % c)
            out.append('proof fn cell_%s_%s_%02x() { assert(%s(0x%02Xu8) == %s); } // CELL %s' % (setn, ctx, c, fn, c, res_expr(key), cid))
            obs[cid] = {'kind': 'cell', 'unit': unit, 'props': [prop],
                        'text': '%s %s code 0x%02X decodes to %s' % (setn, ctx, c, key or 'UnknownKeyCode')}
            ncells += 1
            if cid in known and known[cid].get('observed'):
                out.append('proof fn cell_%s_%s_%02x_observed() { assert(%s(0x%02Xu8) == %s); } // CELL %s#observed' % (setn, ctx, c, fn, c, known[cid]['observed'], cid))
                obs[cid + '#observed'] = {'kind': 'cell', 'unit': unit, 'props': [prop],
                                          'text': 'known finding still has its recorded value: ' + known[cid]['observed']}
    out.append('} // mod %s' % mod)
    aux = {'reference': 'spec/scancodes.json', 'reference_errata': ref.get('errata', []), 'cells_checked': ncells}
    return '\n'.join(out), obs, aux


# ---------------------------------------------------------------------------- C19 / C13

CTXN = {'plain': 0, 'e0': 1, 'e1': 2}


def t_fn_text(setn, ty):
    return ('pub open spec fn t_%s(ctx: u8, code: u8) -> Result<KeyCode, Error> {\n'
            '    if ctx == 0 { %s::spec_map_scancode(code) } else if ctx == 1 { %s::spec_map_extended_scancode(code) } else { %s::spec_map_extended2_scancode(code) }\n}\n'
            % (setn, ty, ty, ty))


def inverse_hint(info, setn):
    """(key -> (ctx, code)) from the native dump of the real tables: an *untrusted hint*, checked by Verus"""
    from . import native
    h = native.hints(info, 'tables')
    inv = {}
    dup = []
    for ctx in ('plain', 'e0', 'e1'):
        row = h['%s/%s' % (setn, ctx)]
        for code in range(256):
            v = row[code]
            if v.startswith('Err') or v == 'None':
                continue
            key, st = v.split('/')
            if st == 'Up':
                continue
            if key in inv:
                dup.append((key, inv[key], (CTXN[ctx], code)))
                continue
            inv[key] = (CTXN[ctx], code)
    return inv, dup


def inv_fn_text(name, inv):
    arms = ['        KeyCode::%s => (%du8, 0x%02Xu8),' % (k, v[0], v[1]) for k, v in sorted(inv.items(), key=lambda kv: kv[1])]
    return 'pub open spec fn %s(k: KeyCode) -> (u8, u8) {\n    match k {\n%s\n        _ => (9u8, 0u8),\n    }\n}\n' % (name, '\n'.join(arms))


def injectivity(info, prop, tier, verif, refine=()):
    """C19: within each set, distinct (prefix, code) pairs denote distinct keys - via a verified inverse map"""
    check_tables_exist(info)
    known = {f['obligation']: f for f in load_findings(verif) if f['property'] == prop}
    mod = 'verif_%s_cells' % prop.lower()
    out = ['pub mod %s {' % mod, 'use vstd::prelude::*;', 'use crate::*;', '']
    obs = {}
    aux = {'inverse_hint': 'native dump of the real decoders through the public API (untrusted; Verus proves it is the inverse)'}
    ncells = 0
    for setn, ty in (('set1', 'ScancodeSet1'), ('set2', 'ScancodeSet2')):
        inv, dup = inverse_hint(info, setn)
        out.append(t_fn_text(setn, ty))
        out.append(inv_fn_text('inv_%s' % setn, inv))
        unit = '%s/injective/%s' % (prop, setn)
        cell_id = lambda ctx, c: '%s/%s/%s/0x%02X' % (prop, setn, ctx, c)
        kn = [(ctx, c) for ctx in CTXN for c in range(256) if cell_id(ctx, c) in known]
        out.append('pub open spec fn gap_%s(ctx: u8, c: u8) -> bool {\n    %s\n}\n' % (
            setn, ' || '.join('(ctx == %d && c == 0x%02Xu8)' % (CTXN[x], c) for x, c in kn) if kn else 'false'))
        out.append('/*@LEMMA:%s@*/' % unit)
        out.append('pub proof fn injective_%s()\n    ensures\n        forall|ctx: u8, c: u8| ctx < 3 && !gap_%s(ctx, c) ==> ((#[trigger] t_%s(ctx, c)) matches Ok(k) ==> inv_%s(k) == (ctx, c)),\n{\n}' % (setn, setn, setn, setn))
        out.append('/*@ENDLEMMA@*/')
        percell = tier == 'thorough' or unit in refine
        obs[unit] = {'kind': 'coarse', 'unit': unit, 'props': [prop], 'cells': 0 if percell else 768 - len(kn),
                     'text': 'forall ctx<3, code: t_%s(ctx, code) == Ok(k) ==> inv_%s(k) == (ctx, code)   [%d decodable keys]' % (setn, setn, len(inv))}
        ncells += 768
        todo = [(ctx, c) for ctx in CTXN for c in range(256)] if percell else kn
        for ctx, c in todo:
            cid = cell_id(ctx, c)
            out.append('proof fn cell_%s_%s_%02x() { assert(t_%s(%du8, 0x%02Xu8) matches Ok(k) ==> inv_%s(k) == (%du8, 0x%02Xu8)); } // CELL %s' % (
                setn, ctx, c, setn, CTXN[ctx], c, setn, CTXN[ctx], c, cid))
            obs[cid] = {'kind': 'cell', 'unit': unit, 'props': [prop], 'text': '%s (%s, 0x%02X) is the only sequence of its key' % (setn, ctx, c)}
        aux['decodable_keys_' + setn] = len(inv)
    out.append('} // mod %s' % mod)
    aux['cells_covered'] = ncells
    return '\n'.join(out), obs, aux


def xlat_cells(info, prop, tier, verif, refine=()):
    """C13: Set 2 code and its i8042 translation decode to the same key (forward), and every Set 1 key that Set 2 can
    express is the translation of its Set 2 sequence (backward)"""
    check_tables_exist(info)
    x = json.load(open(os.path.join(verif, 'spec', 'i8042_xlat.json'), encoding='utf-8'))['xlat']
    known = {f['obligation']: f for f in load_findings(verif) if f['property'] == prop}
    mod = 'verif_%s_cells' % prop.lower()
    out = ['pub mod %s {' % mod, 'use vstd::prelude::*;', 'use crate::*;', '']
    obs = {}
    out.append(t_fn_text('set1', 'ScancodeSet1'))
    out.append(t_fn_text('set2', 'ScancodeSet2'))
    inv2, dup = inverse_hint(info, 'set2')
    out.append(inv_fn_text('inv_set2', inv2))
    arms = ['        %su8 => %su8,' % (k, v) for k, v in sorted(x.items(), key=lambda kv: int(kv[0], 16))]
    out.append('/// the i8042 translation table (spec/i8042_xlat.json)\npub open spec fn xlat(c: u8) -> u8 {\n    match c {\n%s\n        _ => 0xFFu8,\n    }\n}\n' % '\n'.join(arms))
    out.append('pub open spec fn xlat_dom(c: u8) -> bool {\n    (1 <= c <= 0x7F) || c == 0x83 || c == 0x84\n}\n')
    dom = sorted(int(k, 16) for k in x)
    ncells = 0
    fid = lambda ctx, c: '%s/forward/%s/0x%02X' % (prop, ctx, c)
    bid = lambda ctx, c: '%s/backward/%s/0x%02X' % (prop, ctx, c)
    knf = [(ctx, c) for ctx in CTXN for c in dom if fid(ctx, c) in known]
    knb = [(ctx, c) for ctx in CTXN for c in range(128) if bid(ctx, c) in known]
    out.append('pub open spec fn gap_fwd(ctx: u8, c: u8) -> bool {\n    %s\n}\n' % (' || '.join('(ctx == %d && c == 0x%02Xu8)' % (CTXN[a], c) for a, c in knf) if knf else 'false'))
    out.append('pub open spec fn gap_bwd(ctx: u8, c: u8) -> bool {\n    %s\n}\n' % (' || '.join('(ctx == %d && c == 0x%02Xu8)' % (CTXN[a], c) for a, c in knb) if knb else 'false'))
    # the hint really is the inverse of the Set 2 tables
    unit = '%s/inv_set2_is_inverse' % prop
    out.append('/*@LEMMA:%s@*/' % unit)
    out.append('pub proof fn inv_set2_is_inverse()\n    ensures\n        forall|ctx: u8, c: u8| ctx < 3 ==> ((#[trigger] t_set2(ctx, c)) matches Ok(k) ==> inv_set2(k) == (ctx, c)),\n{\n}')
    out.append('/*@ENDLEMMA@*/')
    obs[unit] = {'kind': 'lemma', 'props': [prop], 'text': 'the inverse-map hint used by the backward lemma is the inverse of the Set 2 tables (so "not expressible in Set 2" is exact)'}
    # forward
    unit = '%s/forward' % prop
    out.append('/*@LEMMA:%s@*/' % unit)
    out.append('pub proof fn forward()\n    ensures\n        forall|ctx: u8, c2: u8| ctx < 3 && xlat_dom(c2) && !gap_fwd(ctx, c2) ==> ((#[trigger] t_set2(ctx, c2)) matches Ok(k) ==> t_set1(ctx, xlat(c2)) == Ok::<KeyCode, Error>(k)),\n{\n}')
    out.append('/*@ENDLEMMA@*/')
    percell = tier == 'thorough' or unit in refine
    obs[unit] = {'kind': 'coarse', 'unit': unit, 'props': [prop], 'cells': 0 if percell else 3 * len(dom) - len(knf),
                 'text': 'forall ctx<3, c2 in 0x01-0x7F,0x83,0x84: Set2 ctx c2 == Ok(k) ==> Set1 ctx xlat(c2) == Ok(k)'}
    ncells += 3 * len(dom)
    for ctx, c in ([(a, c) for a in CTXN for c in dom] if percell else knf):
        cid = fid(ctx, c)
        out.append('proof fn cell_fwd_%s_%02x() { assert(t_set2(%du8, 0x%02Xu8) matches Ok(k) ==> t_set1(%du8, xlat(0x%02Xu8)) == Ok::<KeyCode, Error>(k)); } // CELL %s' % (
            ctx, c, CTXN[ctx], c, CTXN[ctx], c, cid))
        obs[cid] = {'kind': 'cell', 'unit': unit, 'props': [prop], 'text': 'Set 2 (%s, 0x%02X) and Set 1 (%s, %s) decode to the same key' % (ctx, c, ctx, x['0x%02X' % c])}
    # backward
    unit = '%s/backward' % prop
    out.append('/*@LEMMA:%s@*/' % unit)
    out.append('pub proof fn backward()\n    ensures\n        forall|ctx: u8, c1: u8| ctx < 3 && c1 < 0x80 && !gap_bwd(ctx, c1) ==> ((#[trigger] t_set1(ctx, c1)) matches Ok(k) ==>\n'
               '            (inv_set2(k).0 == 9 || (inv_set2(k).0 == ctx && xlat(inv_set2(k).1) == c1))),\n{\n}')
    out.append('/*@ENDLEMMA@*/')
    percell = tier == 'thorough' or unit in refine
    obs[unit] = {'kind': 'coarse', 'unit': unit, 'props': [prop], 'cells': 0 if percell else 3 * 128 - len(knb),
                 'text': 'forall ctx<3, c1<0x80: Set1 ctx c1 == Ok(k) and k expressible in Set 2 ==> its Set 2 sequence has the same prefix and translates to c1'}
    ncells += 3 * 128
    for ctx, c in ([(a, c) for a in CTXN for c in range(128)] if percell else knb):
        cid = bid(ctx, c)
        out.append('proof fn cell_bwd_%s_%02x() { assert(t_set1(%du8, 0x%02Xu8) matches Ok(k) ==> (inv_set2(k).0 == 9 || (inv_set2(k).0 == %du8 && xlat(inv_set2(k).1) == 0x%02Xu8))); } // CELL %s' % (
            ctx, c, CTXN[ctx], c, CTXN[ctx], c, cid))
        obs[cid] = {'kind': 'cell', 'unit': unit, 'props': [prop], 'text': 'Set 1 (%s, 0x%02X): if Set 2 can express the key, its sequence translates to this one' % (ctx, c)}
    out.append('} // mod %s' % mod)
    aux = {'reference': 'spec/i8042_xlat.json', 'cells_covered': ncells}
    return '\n'.join(out), obs, aux


# ---------------------------------------------------------------------------- layouts (C09-C12, C15, C16)

RAW52 = ['F1', 'F2', 'F3', 'F4', 'F5', 'F6', 'F7', 'F8', 'F9', 'F10', 'F11', 'F12', 'PrintScreen', 'SysRq', 'ScrollLock', 'PauseBreak',
         'Insert', 'Home', 'PageUp', 'End', 'PageDown', 'ArrowUp', 'ArrowDown', 'ArrowLeft', 'ArrowRight', 'NumpadLock', 'CapsLock',
         'LShift', 'RShift', 'LControl', 'RControl', 'LAlt', 'RAltGr', 'LWin', 'RWin', 'Apps',
         'PrevTrack', 'NextTrack', 'Mute', 'Calculator', 'Play', 'Stop', 'VolumeDown', 'VolumeUp', 'WWWHome',
         'PowerOnTestOk', 'TooManyKeys', 'RControl2', 'RAlt2', 'Oem9', 'Oem10', 'Oem11']
NUMPAD_DIGITS = {'Numpad%d' % i: 0x30 + i for i in range(10)}
NUMPAD_OPS = {'NumpadDivide': 0x2F, 'NumpadMultiply': 0x2A, 'NumpadSubtract': 0x2D, 'NumpadAdd': 0x2B}
EDITING = {'Escape': 0x1B, 'Backspace': 0x08, 'Tab': 0x09, 'Return': 0x0A, 'Delete': 0x7F, 'Spacebar': 0x20}
# decimal separator of the numpad decimal key per layout (property C15: "the layout's decimal separator")
DECIMAL = {'Us104Key': 0x2E, 'Uk105Key': 0x2E, 'Jis109Key': 0x2E, 'Colemak': 0x2E, 'Dvorak104Key': 0x2E, 'DVP104Key': 0x2E, 'Azerty': 0x2E,
           'De105Key': 0x2C, 'No105Key': 0x2C, 'FiSe105Key': 0x2C}


def real_layouts(info):
    return [l for l in info.layouts if 'AnyLayout' not in l]


def check_keys(info, keys, what):
    missing = [k for k in keys if k not in info.keycodes]
    if missing:
        raise ExtractError('lost-anchor: %s names KeyCode variant(s) that no longer exist: %s' % (what, ', '.join(missing)))


def layout_cells(info, prop, tier, verif, refine=()):
    known = {f['obligation']: f for f in load_findings(verif) if f['property'] == prop}
    lays = real_layouts(info)
    out = []
    obs = {}
    aux = {}
    ncells = 0
    hints = None
    if prop == 'C12':
        from . import native
        hints = native.hints(info, 'layouts')
    check_keys(info, RAW52 + list(NUMPAD_DIGITS) + list(NUMPAD_OPS) + list(EDITING) + ['NumpadEnter', 'NumpadPeriod'], 'engine/cells.py')
    for L in lays:
        mod = 'verif_%s_%s' % (prop.lower(), L)
        o = ['pub mod %s {' % mod, 'use vstd::prelude::*;', 'use crate::*;', 'use crate::verif_ldefs::*;', 'use crate::layouts::%s;' % L, '']
        unit = '%s/%s' % (prop, L)
        percell = tier == 'thorough' or unit in refine
        cells = []   # (cell id, assert text, description)

        if prop in ('C09', 'C10', 'C11'):
            pred = {'C09': 'c09_cell', 'C10': 'c10_cell', 'C11': 'c11_cell'}[prop]
            for k in info.keycodes:
                cells.append(('%s/%s/%s' % (prop, L, k), ['%s(%s, KeyCode::%s)' % (pred, L, k)], '%s(%s, %s)' % (pred, L, k)))
            kn = [k for k in info.keycodes if '%s/%s/%s' % (prop, L, k) in known]
            gap = ' && '.join('k != KeyCode::%s' % k for k in kn)
            coarse = 'forall|k: KeyCode| %s#[trigger] %s(%s, k)' % (('(' + gap + ') ==> ') if gap else '', pred, L)
            coarse_body = ''
        elif prop == 'C16':
            for k in RAW52:
                cells.append(('C16/%s/raw/%s' % (L, k), ['c16_raw(%s, KeyCode::%s)' % (L, k)], 'every modifier state and mode: %s decodes to RawKey(%s)' % (k, k)))
            for k in info.keycodes:
                cells.append(('C16/%s/alias/%s' % (L, k), ['c16_alias(%s, KeyCode::%s)' % (L, k)], 'if %s decodes to a raw key it is itself or its NumLock-off alias' % k))
            kn_raw = [k for k in RAW52 if 'C16/%s/raw/%s' % (L, k) in known]
            kn_al = [k for k in info.keycodes if 'C16/%s/alias/%s' % (L, k) in known]
            raws = ' && '.join('c16_raw(%s, KeyCode::%s)' % (L, k) for k in RAW52 if k not in kn_raw)
            gap = ' && '.join('k != KeyCode::%s' % k for k in kn_al)
            coarse = '%s,\n        forall|k: KeyCode| %s#[trigger] c16_alias(%s, k)' % (raws, ('(' + gap + ') ==> ') if gap else '', L)
            coarse_body = ''
            kn = kn_raw + kn_al
        elif prop == 'C15':
            if L not in DECIMAL:
                raise ExtractError('layout %s has no decimal-separator entry in engine/cells.py (new layout: add a reference row)' % L)
            for k, d in NUMPAD_DIGITS.items():
                cells.append(('C15/%s/%s' % (L, k), ['c15_digit(%s, KeyCode::%s, 0x%02X)' % (L, k, d)], '%s: digit %s with NumLock on, navigation alias (raw) with NumLock off' % (k, chr(d))))
            for k, c in list(NUMPAD_OPS.items()) + list(EDITING.items()):
                cells.append(('C15/%s/%s' % (L, k), ['c15_const(%s, KeyCode::%s, 0x%02X)' % (L, k, c)], '%s types U+%04X in every modifier state and mode' % (k, c)))
            cells.append(('C15/%s/NumpadEnter' % L, ['c15_enter(%s)' % L, 'c15_const(%s, KeyCode::NumpadEnter, 0x0A)' % L], 'NumpadEnter types what Return types (U+000A)'))
            cells.append(('C15/%s/NumpadPeriod' % L, ['c15_decimal(%s, 0x%02X)' % (L, DECIMAL[L])], 'numpad decimal key: %r with NumLock on, U+007F with NumLock off' % chr(DECIMAL[L])))
            kn = [c[0] for c in cells if c[0] in known]
            coarse = ',\n        '.join(a for c in cells if c[0] not in known for a in c[1])
            coarse_body = ''
        elif prop == 'C12':
            # witness hints from the real code (untrusted; Verus checks each one)
            wit = {}
            nowitness = []
            for k in info.keycodes:
                row = hints[L][k]
                for lvl in range(3):
                    v = row[lvl]
                    if v.startswith('U+'):
                        cp = int(v[2:], 16)
                        if 0x20 <= cp <= 0x7E and cp not in wit:
                            wit[cp] = (k, lvl)
            for cp in range(0x20, 0x7F):
                cid = 'C12/%s/U+%04X' % (L, cp)
                if cp in wit:
                    k, lvl = wit[cp]
                    a = ['%s.spec_map(KeyCode::%s, &level_mods(%d), HandleControl::Ignore) == uni(0x%02X)' % (L, k, lvl, cp), 'c12_cell(%s, 0x%02X)' % (L, cp)]
                    desc = '%r is typed by %s at level %d' % (chr(cp), k, lvl)
                else:
                    # the existential cannot be stated without a witness, and the real code's own complete enumeration
                    # (all keys x 3 plain levels) has none: the obligation is recorded as undischargeable; the native
                    # replay repeats that complete search on the real code before anything is reported
                    a = ['false']
                    desc = '%r is typed by some key at a plain level - NO WITNESS: no key of the real layout types it at its base, Shift or AltGr level' % chr(cp)
                    nowitness.append(cid)
                cells.append((cid, a, desc))
            kn = [c[0] for c in cells if c[0] in known or c[0] in nowitness]
            coarse = ',\n        '.join(c[1][-1] for c in cells if c[0] not in kn)
            coarse_body = '\n'.join('    assert(%s);' % c[1][0] for c in cells if c[0] not in kn and len(c[1]) > 1)
        else:
            raise ExtractError('no layout cell generator for ' + prop)

        o.append('/*@LEMMA:%s@*/' % unit)
        o.append('pub proof fn coarse()\n    ensures\n        %s,\n{\n%s\n}' % (coarse, coarse_body))
        o.append('/*@ENDLEMMA@*/')
        n_unit = len(cells)
        obs[unit] = {'kind': 'coarse', 'unit': unit, 'props': [prop], 'cells': 0 if percell else n_unit - len(kn),
                     'text': '%s: all %d cells of layout %s in one quantified lemma' % (prop, n_unit, L)}
        ncells += n_unit
        for i, (cid, asserts, desc) in enumerate(cells):
            if not (percell or cid in known or (prop == 'C12' and cid in nowitness)):
                continue
            o.append('proof fn cell_%d() { %s } // CELL %s' % (i, ' '.join('assert(%s);' % a for a in asserts), cid))
            obs[cid] = {'kind': 'cell', 'unit': unit, 'props': [prop], 'text': desc}
            if cid in known and known[cid].get('observed_expr'):
                o.append('proof fn cell_%d_observed() { assert(%s); } // CELL %s#observed' % (i, known[cid]['observed_expr'].replace('$L', L), cid))
                obs[cid + '#observed'] = {'kind': 'cell', 'unit': unit, 'props': [prop], 'text': 'known finding still shows its recorded behaviour: ' + known[cid]['observed_expr']}
        o.append('} // mod %s' % mod)
        out.append('\n'.join(o))
    aux['cells_covered'] = ncells
    aux['layouts'] = lays
    return '\n'.join(out), obs, aux


def anylayout_cells(info, prop, tier, verif, refine=()):
    """C17: per variant, both wrapper forms equal the wrapped layout for every key, modifier set and mode"""
    from . import native
    wrapped = native.wrapped_layouts(info)
    lays = [l for l in real_layouts(info) if l in wrapped]   # a layout need not be a variant of the wrapper
    if 'AnyLayout' not in info.layouts or '&AnyLayout' not in info.layouts:
        raise ExtractError('lost-anchor: impl KeyboardLayout for AnyLayout / &AnyLayout not found')
    out = ['pub mod verif_c17_cells {', 'use vstd::prelude::*;', 'use crate::*;', 'use crate::layouts::*;', '']
    obs = {}
    for L in lays:
        for form in ('value', 'reference'):
            cid = 'C17/%s/%s' % (L, form)
            if form == 'value':
                body = ('forall|k: KeyCode, m: Modifiers, h: HandleControl| #![trigger AnyLayout::%s(%s).spec_map(k, &m, h)] '
                        'AnyLayout::%s(%s).spec_map(k, &m, h) == %s.spec_map(k, &m, h)' % (L, L, L, L, L))
            else:
                body = ('forall|k: KeyCode, m: Modifiers, h: HandleControl| #![trigger <&AnyLayout as KeyboardLayout>::spec_map(&&AnyLayout::%s(%s), k, &m, h)] '
                        '<&AnyLayout as KeyboardLayout>::spec_map(&&AnyLayout::%s(%s), k, &m, h) == %s.spec_map(k, &m, h)' % (L, L, L, L, L))
            out.append('/*@LEMMA:%s@*/' % cid)
            out.append('pub proof fn wrap_%s_%s()\n    ensures\n        %s,\n{\n}' % (L, form, body))
            out.append('/*@ENDLEMMA@*/')
            obs[cid] = {'kind': 'cell', 'unit': 'C17/variants', 'props': [prop], 'text': 'AnyLayout::%s used by %s == %s for every key, modifier set and Ctrl mode' % (L, form, L)}
    out.append('} // mod verif_c17_cells')
    return '\n'.join(out), obs, {'variants': lays, 'cells_covered': 2 * len(lays)}


def c03_cells(info, prop, tier, verif, refine=()):
    """C03: every reference (key, level) cell of each layout, in every modifier state and mode selecting that level"""
    known = {f['obligation']: f for f in load_findings(verif) if f['property'] == prop}
    lays = real_layouts(info)
    out, obs = [], {}
    unconstrained = []
    ncells = 0
    lvlname = ['base', 'shift', 'altgr']
    for L in lays:
        p = os.path.join(verif, 'spec', 'layouts', L + '.json')
        if not os.path.exists(p):
            raise ExtractError('layout %s has no reference table spec/layouts/%s.json (new layout: add a reference table)' % (L, L))
        ref = json.load(open(p, encoding='utf-8'))['keys']
        check_keys(info, list(ref), 'spec/layouts/%s.json' % L)
        unit = 'C03/%s' % L
        percell = tier == 'thorough' or unit in refine
        cells = []
        for k, levels in ref.items():
            for lvl in range(3):
                v = levels[lvl]
                cid = 'C03/%s/%s/%s' % (L, k, lvlname[lvl])
                if v == '?':
                    unconstrained.append(cid)
                    continue
                if lvl < 2:
                    if v is None:
                        continue
                    cps = [ord(c) for c in v]
                    cps3 = (cps + [cps[0]] * 3)[:3]
                    cells.append((cid, 'c03_level(%s, KeyCode::%s, %d, 0x%X, 0x%X, 0x%X)' % (L, k, lvl, cps3[0], cps3[1], cps3[2]),
                                  '%s %s level types %s in every modifier state and mode selecting it' % (k, lvlname[lvl], ' or '.join(repr(c) for c in v))))
                else:
                    if v is None:
                        cells.append((cid, 'c03_no_altgr(%s, KeyCode::%s)' % (L, k), '%s has no distinct AltGr-level character (the standard has none)' % k))
                    else:
                        cps = [ord(c) for c in v]
                        cps3 = (cps + [cps[0]] * 3)[:3]
                        cells.append((cid, '(c03_no_altgr(%s, KeyCode::%s) || c03_level(%s, KeyCode::%s, 2, 0x%X, 0x%X, 0x%X))' % (L, k, L, k, cps3[0], cps3[1], cps3[2]),
                                      '%s: a distinct AltGr-level character, if any, is %s' % (k, ' or '.join(repr(c) for c in v))))
        kn = [c[0] for c in cells if c[0] in known]
        mod = 'verif_c03_%s' % L
        o = ['pub mod %s {' % mod, 'use vstd::prelude::*;', 'use crate::*;', 'use crate::verif_ldefs::*;', 'use crate::layouts::%s;' % L, '']
        o.append('/*@LEMMA:%s@*/' % unit)
        o.append('pub proof fn coarse()\n    ensures\n        %s,\n{\n}' % ',\n        '.join(c[1] for c in cells if c[0] not in known))
        o.append('/*@ENDLEMMA@*/')
        obs[unit] = {'kind': 'coarse', 'unit': unit, 'props': [prop], 'cells': 0 if percell else len(cells) - len(kn),
                     'text': 'C03: all %d reference cells of layout %s' % (len(cells), L)}
        ncells += len(cells)
        for i, (cid, a, desc) in enumerate(cells):
            if not (percell or cid in known):
                continue
            o.append('proof fn cell_%d() { assert(%s); } // CELL %s' % (i, a, cid))
            obs[cid] = {'kind': 'cell', 'unit': unit, 'props': [prop], 'text': desc}
            if cid in known and known[cid].get('observed_expr'):
                o.append('proof fn cell_%d_observed() { assert(%s); } // CELL %s#observed' % (i, known[cid]['observed_expr'].replace('$L', L), cid))
                obs[cid + '#observed'] = {'kind': 'cell', 'unit': unit, 'props': [prop], 'text': 'known finding still shows its recorded behaviour'}
        o.append('} // mod %s' % mod)
        out.append('\n'.join(o))
    aux = {'cells_covered': ncells, 'layouts': lays, 'unconstrained_cells': unconstrained, 'reference': 'spec/layouts/*.json'}
    return '\n'.join(out), obs, aux
