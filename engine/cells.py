"""Generators for per-cell lemma modules (filled in per property)."""
