"""Generators for per-cell lemma modules.

Each generator returns (module_text, obligations, aux).  Obligations of kind 'coarse' quantify over a whole unit
(one table, one layout); when one fails the check re-generates that unit cell by cell (`refine`) so that the failing
cells are named.  Thorough tier is always cell by cell.  Cells listed as open known findings are excluded from the
coarse lemma and asserted individually, together with a `#observed` twin that pins the recorded wrong value, so a
*different* wrong value on the same cell is a new violation.
"""
import json
import os

from .rustlex import ExtractError

TABLE_FN = {'plain': 'map_scancode', 'e0': 'map_extended_scancode', 'e1': 'map_extended2_scancode'}


def load_findings(verif):
    p = os.path.join(verif, 'known_findings.json')
    if not os.path.exists(p):
        return []
    return [f for f in json.load(open(p, encoding='utf-8')).get('findings', []) if f.get('status') == 'open']


def chunks(lst, n):
    for i in range(0, len(lst), n):
        yield lst[i:i + n]


def res_expr(key):
    return 'Ok::<KeyCode, Error>(KeyCode::%s)' % key if key else 'Err::<KeyCode, Error>(Error::UnknownKeyCode)'


def check_tables_exist(info, sets=('ScancodeSet1', 'ScancodeSet2')):
    have = set(d['fn'] for d in info.derived if d['kind'] == 'table')
    for s in sets:
        for fn in TABLE_FN.values():
            if '%s::%s' % (s, fn) not in have:
                raise ExtractError('lost-anchor: table function %s::%s not found' % (s, fn))


def ref_fn_text(name, table, keycodes):
    arms = []
    for code in sorted(table, key=lambda c: int(c, 16)):
        key = table[code]
        if key not in keycodes:
            raise ExtractError('reference table names key %s which is not a KeyCode variant any more' % key)
        arms.append('        %su8 => Ok(KeyCode::%s),' % (code, key))
    return 'pub open spec fn %s(code: u8) -> Result<KeyCode, Error> {\n    match code {\n%s\n        _ => Err(Error::UnknownKeyCode),\n    }\n}\n' % (name, '\n'.join(arms))


def scancode_ref(info, prop, tier, verif, refine=()):
    """C01 (Set 2) / C02 (Set 1): every cell of the three derived table denotations equals the reference table"""
    setn = {'C01': 'set2', 'C02': 'set1'}[prop]
    ty = {'set2': 'ScancodeSet2', 'set1': 'ScancodeSet1'}[setn]
    check_tables_exist(info, (ty,))
    ref = json.load(open(os.path.join(verif, 'spec', 'scancodes.json'), encoding='utf-8'))
    known = {f['obligation']: f for f in load_findings(verif) if f['property'] == prop}
    mod = 'verif_%s_cells' % prop.lower()
    out = ['pub mod %s {' % mod, 'use vstd::prelude::*;', 'use crate::*;', '']
    obs = {}
    ncells = 0
    for ctx in ('plain', 'e0', 'e1'):
        out.append(ref_fn_text('ref_%s_%s' % (setn, ctx), ref[setn][ctx], info.keycodes))
    for ctx in ('plain', 'e0', 'e1'):
        kn_ = [c for c in range(256) if '%s/%s/%s/0x%02X' % (prop, setn, ctx, c) in known]
        out.append('/// cells listed as open known findings (excluded from the quantified lemmas, asserted one by one below)')
        out.append('pub open spec fn gap_%s_%s(c: u8) -> bool {\n    %s\n}\n' % (setn, ctx, ' || '.join('c == 0x%02Xu8' % c for c in kn_) if kn_ else 'false'))
    for ctx in ('plain', 'e0', 'e1'):
        unit = '%s/table/%s/%s' % (prop, setn, ctx)
        fn = '%s::spec_%s' % (ty, TABLE_FN[ctx])
        refn = 'ref_%s_%s' % (setn, ctx)
        codes = list(range(256))
        cell_id = lambda c: '%s/%s/%s/0x%02X' % (prop, setn, ctx, c)
        kn = [c for c in codes if cell_id(c) in known]
        percell = tier == 'thorough' or unit in refine
        if not percell:
            out.append('/*@LEMMA:%s@*/' % unit)
            out.append('pub proof fn table_%s_%s()\n    ensures\n        forall|c: u8| !gap_%s_%s(c) ==> (#[trigger] %s(c)) == %s(c),\n{\n}' % (
                setn, ctx, setn, ctx, fn, refn))
            out.append('/*@ENDLEMMA@*/')
            obs[unit] = {'kind': 'coarse', 'unit': unit, 'props': [prop], 'cells': 256 - len(kn),
                         'text': 'forall code: %s(code) == reference %s/%s (%d cells)' % (fn, setn, ctx, 256 - len(kn))}
            ncells += 256 - len(kn)
            todo = kn
        else:
            # the quantified lemma is still needed by the sequence lemmas: state it from the cells (exempting known cells)
            out.append('/*@LEMMA:%s@*/' % unit)
            out.append('pub proof fn table_%s_%s()\n    ensures\n        forall|c: u8| !gap_%s_%s(c) ==> (#[trigger] %s(c)) == %s(c),\n{\n}' % (
                setn, ctx, setn, ctx, fn, refn))
            out.append('/*@ENDLEMMA@*/')
            obs[unit] = {'kind': 'coarse', 'unit': unit, 'props': [prop], 'cells': 0,
                         'text': 'forall code: %s(code) == reference %s/%s' % (fn, setn, ctx)}
            todo = codes
        # one proof fn per cell: after a failed assert Verus assumes it, which would make later asserts in the same
        # function vacuous when the assumed fact is false
        for c in todo:
            cid = cell_id(c)
            key = ref[setn][ctx].get('0x%02X' % c)
            out.append('proof fn cell_%s_%s_%02x() { assert(%s(0x%02Xu8) == %s); } // CELL %s' % (setn, ctx, c, fn, c, res_expr(key), cid))
            obs[cid] = {'kind': 'cell', 'unit': unit, 'props': [prop],
                        'text': '%s %s code 0x%02X decodes to %s' % (setn, ctx, c, key or 'UnknownKeyCode')}
            ncells += 1
            if cid in known and known[cid].get('observed'):
                out.append('proof fn cell_%s_%s_%02x_observed() { assert(%s(0x%02Xu8) == %s); } // CELL %s#observed' % (setn, ctx, c, fn, c, known[cid]['observed'], cid))
                obs[cid + '#observed'] = {'kind': 'cell', 'unit': unit, 'props': [prop],
                                          'text': 'known finding still has its recorded value: ' + known[cid]['observed']}
    out.append('} // mod %s' % mod)
    aux = {'reference': 'spec/scancodes.json', 'reference_errata': ref.get('errata', []), 'cells_checked': ncells}
    return '\n'.join(out), obs, aux
