"""Stand-ins for the deductive verdict: bounded or exhaustive *native* runs of the real code against the executable
renderings of the specifications (replayer `sweep`, `cellcheck`). They run when the deductive verifier cannot decide
(refactored code, lost anchors, constructs outside its dialect), after a rejected clause to look for a concrete input,
and always in the thorough tier as a cross-check. A hit is a concrete failing input replayed on the real code, hence a
genuine violation; no hit proves nothing and is never counted as proof.
"""
import os
import re

from . import gen, native, cex

VERIF = os.path.dirname(os.path.dirname(os.path.abspath(__file__)))
REPO = os.environ.get('VERIF_REPO', '/repo')

SWEEPS = {
    'C01': [['stream', '2'], ['longrun', 'stream2', '@SEED', '3000000']],
    'C02': [['stream', '1'], ['longrun', 'stream1', '@SEED', '3000000']],
    'C04': [['events', '1'], ['longrun', '1', '@SEED', '3000000'], ['events-real', '1']],
    'C05': [['words']],
    'C06': [['bits'], ['longrun', 'bits', '@SEED', '5000000']],
    'C07': [['resync', '2'], ['resync', '1']],
    'C08': [['words'], ['bits'], ['events', '3'], ['events', '7'], ['total'], ['soak'], ['longrun', 'bits', '@SEED', '5000000'], ['longrun', '3', '@SEED', '3000000'], ['keyboard', '2'], ['keyboard', '1'], ['stream', '2'], ['stream', '1'],
            # Kani/CBMC, bounded: every history of <= 8 key events on a fresh event decoder, panic checks only (a trap behind a
            # particular sequence of presses, which no random or pairwise native sweep reaches)
            ['kani-deep', 'events_deep']],
    'C14': [['events', '2'], ['events', '6'], ['events-real', '2'], ['longrun', '2', '@SEED', '3000000']],
    # C18 compares Keyboard with the real stages (not the stages with their specifications: that is C05/C06/C01/C02/C04/C14)
    'C18': [['keyboard', '2'], ['keyboard', '1'], ['fuzz', '2', '@SEED', '5000000'], ['fuzz', '1', '@SEED', '5000000']],
    'C17': [['switching']],
    'C19': [['pairing', '2'], ['pairing', '1']],
}
CELL_PROPS = ('C01', 'C02', 'C03', 'C09', 'C10', 'C11', 'C12', 'C13', 'C15', 'C16', 'C17', 'C19')


CRASH_RCS = (-6, -11, -4, -7, 134, 139)   # SIGABRT (Rust's stack-overflow handler, abort()), SIGSEGV, SIGILL, SIGBUS


def sweep(binpath, args, timeout=900):
    rc, out, err = native.run(binpath, ['sweep'] + args, timeout=timeout)
    if rc in CRASH_RCS and os.environ.get('SWEEP_PANIC_NOT_MINE') == '1':
        return 'ERROR the real code killed the replayer process (rc=%d): that is C08\'s hit, this relational sweep could not complete' % rc
    if rc in CRASH_RCS:
        # the real code took the whole process down (unbounded recursion, abort): that is not 'returning normally'
        at = [l for l in err.split('\n') if l.startswith('AT ')]
        why = [l for l in err.split('\n') if l and not l.startswith('AT ')]
        return 'FAILS crash %s rc=%d at=%s :: %s' % ('-'.join(args), rc, (at[-1][3:].replace(' ', ',') if at else '?'), ' '.join(why)[-300:])
    return out.strip().split('\n')[-1] if out.strip() else ('ERROR ' + err[-300:])


def kani_deep(info, binpath, harness):
    """bounded panic search with Kani's symbolic execution; the values of a failing trace are replayed natively"""
    from . import kani, kanicex
    try:
        d, text, npred = kani.prepare(info, subdir='cex')
        r, out = kani.run_harness(d, 'cex::' + harness, extra_args=['-Z', 'concrete-playback', '--concrete-playback=print'], timeout=900, mem_gb=16)
    except Exception as e:
        return 'ERROR kani-deep %s: %r' % (harness, e)
    if r['ok']:
        return 'HOLDS bound: every history of <= 8 key events on a fresh EventDecoder (both modes, recording layout): no panic, overflow or failed unwrap (Kani/CBMC %.0f s; bounded, not a proof)' % r['wall_s']
    if not r['failed']:
        return 'ERROR kani-deep %s did not complete (rc=%s)' % (harness, r['rc'])
    vals = kanicex.parse_playback(out)
    if not vals or len(vals) < 3:
        return 'ERROR kani-deep %s: Kani reports a failing check but no concrete values could be parsed' % harness
    if len(vals) >= 17:
        # one value per array element: pack the two eight-byte arrays the way the native scenario unpacks them
        pack = lambda xs: sum((x & 0xFF) << (8 * i) for i, x in enumerate(xs))
        vals = [vals[0], pack(vals[1:9]), pack(vals[9:17])]
    cmd = ['kanicex', harness] + [str(v) for v in vals[:3]]
    rc, nout, nerr = native.run(binpath, cmd)
    if rc != 0 or 'RESULT PANIC' in nout:
        return 'FAILS ' + ' '.join(cmd)
    return 'ERROR kani-deep %s: Kani produced values %s but the native run of the real code does not panic' % (harness, vals[:3])


def hit_from_sweep(prop, binpath, args, line):
    # line: FAILS kanicex <scenario> <values...>   |   FAILS soak PANIC: <message>
    parts = line.split()
    if parts[1] == 'crash':
        cmd = ['sweep'] + list(args)
        desc = line
        at = parts[4][3:] if len(parts) > 4 and parts[4].startswith('at=') else '?'
        if args == ['total'] and at != '?':
            # narrow the beacon (layout, form, key) down to the modifier set and mode that kill the process
            l, f, k = at.split(',')
            for mode in (0, 1):
                for mods in range(512):
                    c = ['kanicex', 'layout_total', l, f, k, str(mods), str(mode)]
                    rc, out, err = native.run(binpath, c)
                    if rc in CRASH_RCS:
                        cmd = c
                        desc = 'scenario layout_total(%s): the process dies (rc=%d): %s' % (', '.join(c[2:]), rc, err[-200:])
                        break
                if cmd[0] == 'kanicex':
                    break
        return {
            'obligation': 'standin/sweep-%s' % '-'.join(args),
            'text': 'native sweep `%s`: the real code must return normally' % ' '.join(args),
            'extra': {
                'counterexample': {'found_by': 'native sweep `replayer sweep %s` (the replayer process was killed by the real code)' % ' '.join(args), 'description': desc,
                                   'scenario': cmd[1] if cmd[0] == 'kanicex' else 'sweep', 'values': cmd[2:] if cmd[0] == 'kanicex' else list(args)},
                'native_replay': {'cmd': cmd, 'output': desc, 'reproduced': True},
            },
        }
    if parts[1] == 'longrun':
        return {
            'obligation': 'standin/sweep-longrun-%s' % args[1],
            'text': 'long pseudo-random history of the real code compared step by step with the executable specification',
            'extra': {
                'counterexample': {'found_by': 'native sweep `replayer sweep %s`' % ' '.join(args), 'description': line, 'scenario': 'longrun', 'values': args[1:]},
                'native_replay': {'cmd': ['sweep'] + args, 'output': line, 'reproduced': True},
            },
        }
    if parts[1] == 'fuzz':
        return {
            'obligation': 'standin/sweep-fuzz',
            'text': 'long pseudo-random interleaving of all Keyboard operations against three separate real stages',
            'extra': {
                'counterexample': {'found_by': 'native sweep `replayer sweep %s`' % ' '.join(args), 'description': line, 'scenario': 'fuzz', 'values': args[1:]},
                'native_replay': {'cmd': ['sweep'] + args, 'output': line, 'reproduced': True},
            },
        }
    if parts[1] == 'soak':
        return {
            'obligation': 'standin/sweep-soak',
            'text': 'native soak run of the real code: long monotonous histories must not panic',
            'extra': {
                'counterexample': {'found_by': 'native sweep `replayer sweep soak`', 'description': line, 'scenario': 'soak', 'values': []},
                'native_replay': {'cmd': ['sweep', 'soak'], 'output': line, 'reproduced': True},
            },
        }
    cmd = parts[1:]
    rc, out, err = native.run(binpath, cmd)
    return {
        'obligation': 'standin/sweep-%s' % '-'.join(args),
        'text': 'native sweep `%s` of the real code against the executable specification' % ' '.join(args),
        'extra': {
            'counterexample': {'found_by': 'native sweep `replayer sweep %s` (stand-in: the deductive verdict was undecided or gave no input)' % ' '.join(args),
                               'scenario': cmd[1], 'values': cmd[2:], 'description': 'scenario %s(%s): %s' % (cmd[1], ', '.join(cmd[2:]), (out.strip().split('\n')[-1] if out else err[-200:])),
                               'native_trace': out[-3000:]},
            'native_replay': {'cmd': cmd, 'output': out[-3000:], 'reproduced': True},
        },
    }


def all_cells(prop, info):
    """ids of every cell of a cell-structured property (from its generator in per-cell mode)"""
    from . import cells
    from .props import PROPS
    ids = {}
    for g in PROPS[prop].get('cellgens', []):
        t, o, a = getattr(cells, g)(info, prop, 'thorough', VERIF, ())
        for oid, ob in o.items():
            if ob['kind'] == 'cell' and not oid.endswith('#observed'):
                ids[oid] = ob
    return ids


THOROUGH_EXTRA = {
    'C07': [['resync4', '2'], ['resync4', '1']],
    'C18': [['fuzz', '2', '@SEED', '30000000'], ['fuzz', '1', '@SEED', '30000000']],
    'C08': [['fuzz', '2', '@SEED', '30000000']],
}


def run(prop, tier, known=()):
    """returns (hits, coverage)"""
    info = gen.generate(REPO, os.path.join(VERIF, 'contracts'))
    binpath = native.build(info)
    hits = []
    ran = []
    seed = os.environ.get('VERIF_SEED', '0') or '0'
    sweeps = [[a.replace('@SEED', seed) for a in x] for x in SWEEPS.get(prop, [])]
    if tier == 'thorough':
        sweeps += [[a.replace('@SEED', seed) for a in x] for x in THOROUGH_EXTRA.get(prop, [])]
    for args in sweeps:
        line = kani_deep(info, binpath, args[1]) if args[0] == 'kani-deep' else sweep(binpath, args)
        ran.append({'sweep': ' '.join(args), 'result': line[:200]})
        if line.startswith('FAILS'):
            hits.append(hit_from_sweep(prop, binpath, args, line))
            break
    if not hits and prop in CELL_PROPS:
        try:
            ids = all_cells(prop, info)
        except Exception as e:
            ids = {}
            ran.append({'cells': 'could not enumerate cells: %r' % (e,)})
        n = nfail = 0
        for oid, ob in ids.items():
            if oid in known:
                continue
            n += 1
            cmd = cex.native_cmd_for(prop, oid, info)
            if cmd:
                rc, out, err = native.run(binpath, cmd)
                if out.startswith('FAILS'):
                    nfail += 1
                    if len(hits) < 12:
                        hits.append({'obligation': oid, 'text': ob.get('text', ''), 'extra': {
                            'counterexample': {'found_by': 'exhaustive native enumeration of the cell\'s whole input domain on the real code (stand-in)', 'description': out, 'native_cmd': cmd},
                            'native_replay': {'cmd': cmd, 'output': out, 'reproduced': True}}})
                continue
            sc = cex.scancode_cell(prop, oid, info, binpath)
            if sc and sc['reproduced']:
                nfail += 1
                if len(hits) < 12:
                    hits.append({'obligation': oid, 'text': ob.get('text', ''), 'extra': {
                        'counterexample': {'found_by': 'the cell names the concrete input; executed natively on the real code (stand-in)', **sc,
                                           'description': 'input %s: expected %s, observed %s' % (sc['input'], sc['expected'], sc['observed'])},
                        'native_replay': {'cmd': sc['native_cmd'], 'output': sc['observed'], 'reproduced': True}}})
        ran.append({'cells': '%d cells of %s executed natively over their whole input domains (complete), %d failing' % (n, prop, nfail)})
    return hits, {'ran': ran, 'note': 'stand-ins are bounded / exhaustive native executions, not proofs'}
