"""Loader for hand-written lemma modules (/verif/lemmas/*.rs).

A line `//@ LEMMA <id>` starts the region of obligation <id>; the region runs to the next such line or
to the end of the module. Helper lemmas without their own marker belong to the preceding region.
"""
import os
import re

LEM = re.compile(r'^\s*//@ LEMMA (\S+)\s*$')


def load(path, prop):
    lines = open(path, encoding='utf-8').read().split('\n')
    out = []
    obligations = {}
    open_id = None
    last_close = max(i for i, l in enumerate(lines) if l.startswith('}'))
    for i, l in enumerate(lines):
        m = LEM.match(l)
        if m:
            if open_id:
                out.append('/*@ENDLEMMA@*/')
            open_id = m.group(1)
            out.append('/*@LEMMA:%s@*/' % open_id)
            # description: following doc comment / signature line
            desc = ''
            for j in range(i + 1, min(i + 6, len(lines))):
                if re.search(r'\bfn\b', lines[j]):
                    desc = lines[j].strip()
                    break
            obligations[open_id] = {'kind': 'lemma', 'props': [prop], 'text': desc, 'src': '%s:%d' % (os.path.basename(path), i + 1)}
            continue
        if i == last_close and open_id:
            out.append('/*@ENDLEMMA@*/')
            open_id = None
        out.append(l)
    return '\n'.join(out), obligations
