"""./check <ID> [--tier quick|thorough] [--replay FILE]

exit 0  every obligation of the property discharged (open known findings are printed as KNOWN-FINDING)
exit 1  VIOLATION property=<id> replay=<path>   (an obligation that is not a listed finding failed semantically)
exit 2  UNDECIDED (lost anchor, construct outside the verifier's dialect, rlimit, tool crash, vacuity probe, assumption not discharged)
"""
import argparse
import hashlib
import json
import os
import re
import shutil
import sys
import time

from . import gen, lemmas, verus
from .rustlex import ExtractError
from .vspec import SpecError
from .props import PROPS

VERIF = os.path.dirname(os.path.dirname(os.path.abspath(__file__)))
REPO = os.environ.get('VERIF_REPO', '/repo')
# build output, replay files and evidence go under VERIF unless a scratch root is given (self-tests on mutated copies)
SCRATCH = os.environ.get('VERIF_SCRATCH') or VERIF


def sanitize(s):
    return re.sub(r'[^A-Za-z0-9_.-]+', '_', s)[:150]


def load_findings():
    p = os.path.join(VERIF, 'known_findings.json')
    if not os.path.exists(p):
        return []
    return json.load(open(p, encoding='utf-8')).get('findings', [])


class Ctx:
    pass


def build(prop, tier, seed, workdir, refine=()):
    """generate the Verus file for a property; returns (info, obligations, gen_path)"""
    from . import cells
    cfg = PROPS[prop]
    texts = []
    obligations = {}
    for name in cfg.get('lemmas', []):
        t, o = lemmas.load(os.path.join(VERIF, 'lemmas', name + '.rs'), prop)
        texts.append(t)
        obligations.update(o)
    for name in cfg.get('support_lemmas', []):
        # lemma modules of other properties that this one's lemmas cite (their obligations belong to those properties)
        t, o = lemmas.load(os.path.join(VERIF, 'lemmas', name + '.rs'), name.upper())
        texts.append(t)
    # first pass without generated cells to learn keycodes / layouts
    pre = gen.generate(REPO, os.path.join(VERIF, 'contracts'))
    aux = {}
    for g in cfg.get('cellgens', []):
        t, o, a = getattr(cells, g)(pre, prop, tier, VERIF, refine)
        texts.append(t)
        obligations.update(o)
        aux.update(a or {})
    os.makedirs(workdir, exist_ok=True)
    gen_path = os.path.join(workdir, 'gen.rs')
    info = gen.generate(REPO, os.path.join(VERIF, 'contracts'), texts, out_path=gen_path)
    info.aux = aux
    return info, obligations, gen_path


def relevant_obligations(prop, info, lemma_obs):
    R = {}
    for oid, ob in info.obligations.items():
        if ob['kind'] == 'clause' and prop in ob['props']:
            R[oid] = ob
    for oid, ob in lemma_obs.items():
        R[oid] = ob
    if prop == 'C08':
        for f in info.functions:
            if f['has_body'] and not f['external_body']:
                R[f['key'] + '/safety'] = {'kind': 'safety', 'props': ['C08'], 'fn': f['key'],
                                          'text': 'no overflow / out-of-range shift / reachable panic in the body of %s under its precondition' % f['key']}
    return R


def classify(prop, failures, R, info):
    """split Verus failures into those that concern this property and the rest"""
    mine, tool, other = [], [], []
    for f in failures:
        if f.kind == 'tool':
            tool.append(f)
            continue
        oid = f.oid
        if oid is None:
            tool.append(f)
            continue
        if oid in R:
            mine.append(f)
            continue
        m = re.match(r'^(.*)/call(?::(.*))?$', oid)
        if m:
            callee_clause = m.group(2)
            props = info.obligations.get(callee_clause, {}).get('props', []) if callee_clause else []
            if prop == 'C08' or prop in props:
                mine.append(f)
            else:
                other.append(f)
            continue
        if oid.endswith('/derived'):
            # wrong derivation is a tool problem for every property that uses the denotation
            tool.append(f)
            continue
        other.append(f)
    return mine, tool, other


def write_replay(prop, f, R, info, res, extra=None):
    d = os.path.join(SCRATCH, 'out', 'replay', prop)
    os.makedirs(d, exist_ok=True)
    path = os.path.join(d, sanitize(f.oid) + '.json')
    ob = R.get(f.oid) or info.obligations.get(f.oid.split('/call:')[-1], {}) if f.oid else {}
    lines = info.text.split('\n')
    excerpt = []
    for (a, b, p, l) in f.lines[:4]:
        for ln in range(a, min(b, a + 8) + 1):
            excerpt.append('%d: %s' % (ln, lines[ln - 1] if ln - 1 < len(lines) else ''))
    rec = {
        'property': prop,
        'obligation': f.oid,
        'obligation_text': ob.get('text', ''),
        'obligation_source': ob.get('src', ''),
        'verifier': 'verus ' + res.version,
        'verifier_message': f.message,
        'verifier_spans': f.detail,
        'generated_file_excerpt': excerpt,
        'checker_cmd': res.cmd,
        'counterexample': None,
        'replay': 're-run `./check %s --replay <this file>`: re-verifies this obligation against /repo and, when a concrete input is recorded, executes it natively' % prop,
    }
    if extra:
        rec.update(extra)
    json.dump(rec, open(path, 'w', encoding='utf-8'), indent=1, ensure_ascii=False)
    return path


def main(argv=None):
    ap = argparse.ArgumentParser()
    ap.add_argument('prop')
    ap.add_argument('--tier', default=os.environ.get('VERIF_TIER', 'quick'))
    ap.add_argument('--replay', default=None)
    args = ap.parse_args(argv)
    prop = args.prop
    tier = args.tier if args.tier in ('quick', 'thorough') else 'quick'
    try:
        seed = int(os.environ.get('VERIF_SEED', '0'))
    except ValueError:
        seed = 0
    if prop not in PROPS:
        print('unknown or not-applicable property %s' % prop)
        return 2
    if args.replay:
        from . import replay
        return replay.run(prop, args.replay)
    t0 = time.time()
    workdir = os.path.join(SCRATCH, 'build', prop)
    evidence = {
        'property_id': prop, 'tier': tier, 'seed': seed, 'level': 'proof',
        'coverage': {'obligations': 0, 'discharged': 0, 'checker_cmd': '', 'trusted_base': [], 'samples': []},
        'assumptions': list(PROPS[prop]['assume']), 'wall_s': 0.0, 'violations': 0,
    }

    def finish(code, note=None):
        evidence['wall_s'] = round(time.time() - t0, 2)
        if note:
            evidence['coverage']['explanation'] = note
        os.makedirs(os.path.join(SCRATCH, 'evidence'), exist_ok=True)
        json.dump(evidence, open(os.path.join(SCRATCH, 'evidence', prop + '.json'), 'w', encoding='utf-8'), indent=1, ensure_ascii=False)
        return code

    try:
        info, lemma_obs, gen_path = build(prop, tier, seed, workdir)
    except (ExtractError, SpecError) as e:
        print('UNDECIDED property=%s reason=extraction: %s' % (prop, e))
        evidence['level'] = 'other'
        return finish(2, 'undecided: extraction failed: %s' % e)

    R = relevant_obligations(prop, info, lemma_obs)
    res = verus.run(gen_path, info, seed=seed, multiple_errors=max(50, len(info.cell_lines) + 20))
    mine, tool, other = classify(prop, res.failures, R, info)
    # refine failing coarse units cell by cell so that the failing cells are named
    coarse_failed = sorted(set(R[f.oid]['unit'] for f in mine if f.oid in R and R[f.oid]['kind'] == 'coarse' and f.kind == 'semantic'))
    refined = False
    if coarse_failed and tier != 'thorough' and not tool:
        try:
            info, lemma_obs, gen_path = build(prop, tier, seed, workdir, refine=tuple(coarse_failed))
        except (ExtractError, SpecError) as e:
            print('UNDECIDED property=%s reason=extraction: %s' % (prop, e))
            evidence['level'] = 'other'
            return finish(2, 'undecided: extraction failed: %s' % e)
        R = relevant_obligations(prop, info, lemma_obs)
        res = verus.run(gen_path, info, seed=seed, multiple_errors=max(50, len(info.cell_lines) + 20))
        mine, tool, other = classify(prop, res.failures, R, info)
        refined = True
    # a coarse lemma whose unit also has failing cells is subsumed by those cells
    units_with_failing_cells = set(R[f.oid]['unit'] for f in mine if f.oid in R and R[f.oid]['kind'] == 'cell')
    kept = []
    for f in mine:
        ob = R.get(f.oid)
        if ob and ob['kind'] == 'coarse' and f.kind == 'semantic':
            if ob['unit'] in units_with_failing_cells:
                continue
            if refined or tier == 'thorough':
                # quantified form fails although every cell verifies: solver incompleteness, not a violation
                f.kind = 'undecided'
                f.message = 'quantified lemma not proved although all its cells verify: ' + f.message
        kept.append(f)
    mine = kept

    # --- thorough extras
    extra_cov = {}
    undecided_reasons = []
    if tier == 'thorough':
        from . import thorough
        thorough.run(prop, info, gen_path, R, seed, extra_cov, undecided_reasons, mine)

    # --- assumptions discharged by Kani on the real compiled crate
    kani_cov = {}
    if PROPS[prop].get('kani'):
        from . import kani
        ok, kani_cov, why = kani.discharge(PROPS[prop]['kani'], info, tier)
        if not ok:
            undecided_reasons.append('assumption not discharged by Kani: ' + why)

    findings = load_findings()
    open_f = {(x['property'], x['obligation']): x for x in findings if x.get('status') == 'open'}
    failed_ids = []
    violations = []
    known_hit = []
    undecided = [f for f in mine if f.kind == 'undecided']
    for f in mine:
        if f.kind != 'semantic':
            continue
        if f.oid in failed_ids:
            continue
        failed_ids.append(f.oid)
        k = open_f.get((prop, f.oid))
        if k:
            known_hit.append(k)
        else:
            violations.append(f)

    # --- evidence
    n_ob = len(R)
    n_failed = len(set(f.oid for f in mine if f.oid in R)) + len(set(f.oid for f in mine if f.oid not in R))
    cov = evidence['coverage']
    # cells listed as open known findings are reported, not claimed: they are excluded from the obligation count of the proof claim
    known_ids = set(k['obligation'] for k in known_hit)
    failed_in_R = set(f.oid for f in mine if f.oid in R)
    cov['obligations'] = n_ob - len(known_ids & failed_in_R) + len(kani_cov)
    cov['discharged'] = max(0, n_ob - len(failed_in_R)) + sum(1 for v in kani_cov.values() if v.get('ok'))
    cov['excluded_known_findings'] = sorted(known_ids)
    cov['by_back_end'] = {
        'verus': {'obligations': n_ob, 'failed': sorted(set(f.oid for f in mine)), 'verified_items_total': res.verified, 'errors_total': res.errors,
                  'solver_ms': res.times.get('smt', {}).get('total'), 'wall_ms': res.times.get('total'), 'version': res.version},
        'kani': kani_cov,
    }
    cov['checker_cmd'] = 'cd build/%s && %s' % (prop, res.cmd)
    cov['trusted_base'] = list(PROPS[prop]['assume'])
    cov['technique'] = PROPS[prop]['technique']
    by_kind = {}
    for oid, ob in R.items():
        by_kind[ob['kind']] = by_kind.get(ob['kind'], 0) + 1
    cov['obligation_kinds'] = by_kind
    fkeys = sorted(set(ob.get('fn') for ob in R.values() if ob.get('fn')))
    cov['functions_under_contract'] = fkeys
    cov['extraction'] = {
        'files': [{'path': os.path.relpath(f['path'], REPO), 'sha256': f['sha256']} for f in info.files],
        'bodies_verbatim': info.bodies_verbatim, 'bodies_digest': info.bodies_digest,
        'dropped': summarize_dropped(info.dropped),
        'added': 'ghost only: contracts from contracts/*.vspec, ghost accessors/invariants, derived spec copies, Structural derives, proof prologues in %d bodies' % sum(1 for f in info.functions if f['prologue']),
        'derived_denotations': [d['fn'] for d in info.derived],
        'unsafe_blocks': info.unsafe, 'loops_in_exec_code': info.loops,
    }
    samples = []
    for oid in list(R)[:3] + list(R)[-3:]:
        samples.append({'obligation': oid, 'kind': R[oid]['kind'], 'formula': R[oid].get('text', '')[:400]})
    cov['samples'] = samples
    cov['known_findings_hit'] = [k['obligation'] for k in known_hit]
    cov['other_properties_failing'] = sorted(set(f.oid for f in other if f.oid))
    cov.update(extra_cov)
    if getattr(info, 'aux', None):
        cov.update(info.aux)
    evidence['violations'] = len(violations)

    if n_ob == 0:
        print('UNDECIDED property=%s reason=vacuous: no obligations generated' % prop)
        evidence['level'] = 'other'
        return finish(2, 'undecided: zero obligations')

    # tool problems make everything undecided
    if tool or res.crashed:
        for f in tool[:5]:
            print('UNDECIDED property=%s reason=tool: %s [%s]' % (prop, f.message[:300], f.detail[:200]))
        if res.crashed and not tool:
            print('UNDECIDED property=%s reason=verus did not complete' % prop)
        evidence['level'] = 'other'
        return finish(2, 'undecided: verifier could not process the generated file (%d tool diagnostics); nothing is claimed' % len(tool))

    for k in known_hit:
        print('KNOWN-FINDING: property=%s %s: %s' % (prop, k['obligation'], k.get('what', '')))

    if violations:
        from . import cex
        real = []
        for i, f in enumerate(violations):
            extra = None
            if i < 12:
                try:
                    extra = cex.find(prop, f, R, info)
                except Exception as e:  # counterexample search is best effort
                    extra = {'counterexample': None, 'counterexample_search': 'failed: %r' % (e,)}
            else:
                extra = {'counterexample': None, 'counterexample_search': 'skipped: more than 12 violations in this run'}
            if extra and extra.get('spurious'):
                # the cell's whole finite domain was executed on the real code and satisfies the formula
                undecided_reasons.append('verifier rejects %s but exhaustive native execution of that cell finds no failing input (solver incompleteness)' % f.oid)
                continue
            path = write_replay(prop, f, R, info, res, extra)
            tail = '' if (extra and extra.get('counterexample')) else ' no-failing-input-found'
            real.append((f, path, tail, extra))
        for f, path, tail, extra in real:
            if extra and extra.get('counterexample') and extra['counterexample'].get('description'):
                print('  counterexample: %s' % extra['counterexample']['description'][:400])
            print('VIOLATION property=%s replay=%s obligation=%s%s' % (prop, path, f.oid, tail))
        evidence['violations'] = len(real)
        if real:
            return finish(1)

    if undecided or undecided_reasons:
        for f in undecided[:5]:
            print('UNDECIDED property=%s reason=%s obligation=%s' % (prop, f.message[:200], f.oid))
        for r in undecided_reasons:
            print('UNDECIDED property=%s reason=%s' % (prop, r))
        evidence['level'] = 'other'
        return finish(2, 'undecided: ' + '; '.join([f.message[:100] for f in undecided] + undecided_reasons))

    print('OK property=%s tier=%s obligations=%d discharged=%d known_findings=%d verus_wall=%.1fs' % (
        prop, tier, cov['obligations'], cov['discharged'], len(known_hit), res.wall_s))
    return finish(0)


def summarize_dropped(dropped):
    s = {}
    for d in dropped:
        k = d['what'] if not d['what'].startswith('inner doc') else 'inner doc comment lines'
        s[k] = s.get(k, 0) + 1
    return s


if __name__ == '__main__':
    sys.exit(main())
