"""./check <ID> [--tier quick|thorough] [--replay FILE]

exit 0  every obligation of the property discharged (open known findings are printed as KNOWN-FINDING)
exit 1  VIOLATION property=<id> replay=<path>   (an obligation that is not a listed finding failed semantically, or a
        stand-in found a concrete failing input on the real code while the deductive verdict was undecided)
exit 2  UNDECIDED (lost anchor, construct outside the verifier's dialect, rlimit, tool crash, vacuity probe, assumption
        not discharged) and the property's bounded stand-ins found no failing input
"""
import argparse
import json
import os
import re
import sys
import time

from . import gen, lemmas, verus
from .rustlex import ExtractError
from .vspec import SpecError
from .props import PROPS

VERIF = os.path.dirname(os.path.dirname(os.path.abspath(__file__)))
REPO = os.environ.get('VERIF_REPO', '/repo')
# build output, replay files and evidence go under VERIF unless a scratch root is given (self-tests on mutated copies)
SCRATCH = os.environ.get('VERIF_SCRATCH') or VERIF


def sanitize(s):
    return re.sub(r'[^A-Za-z0-9_.-]+', '_', s)[:150]


def load_findings():
    p = os.path.join(VERIF, 'known_findings.json')
    if not os.path.exists(p):
        return []
    return json.load(open(p, encoding='utf-8')).get('findings', [])


def build(prop, tier, seed, workdir, refine=(), opaque=(), external=(), behavioural=(), drop=()):
    """generate the Verus file for a property; returns (info, obligations, gen_path)"""
    from . import cells
    cfg = PROPS[prop]
    texts = []
    obligations = {}
    for name in cfg.get('lemmas', []):
        t, o = lemmas.load(os.path.join(VERIF, 'lemmas', name + '.rs'), prop)
        texts.append(t)
        obligations.update(o)
    for name in cfg.get('support_lemmas', []):
        # lemma modules of other properties that this one's lemmas cite (their obligations belong to those properties)
        t, o = lemmas.load(os.path.join(VERIF, 'lemmas', name + '.rs'), name.upper())
        texts.append(t)
    # first pass without generated cells to learn keycodes / layouts
    pre = gen.generate(REPO, os.path.join(VERIF, 'contracts'), opaque=opaque, external=external, behavioural=behavioural, drop=drop)
    table_hints = None
    if pre.needs_table_hints:
        from . import native
        try:
            table_hints = native.hints(pre, 'tables')
        except native.NativeError:
            table_hints = None
    layout_hints = None
    if pre.needs_layout_hints:
        from . import native
        layout_hints = {}
        try:
            b = native.build(pre)
            for lname in set(pre.needs_layout_hints):
                rc, out, err = native.run(b, ['layout-table', lname])
                if rc == 0:
                    layout_hints[lname] = json.loads(out)
        except native.NativeError:
            pass
    pred_hints = None
    if pre.needs_pred_hints:
        from . import native
        try:
            b = native.build(pre)
            rc, out, err = native.run(b, ['preds'])
            if rc == 0:
                pred_hints = json.loads(out)
        except native.NativeError:
            pass
    aux = {}
    for g in cfg.get('cellgens', []):
        t, o, a = getattr(cells, g)(pre, prop, tier, VERIF, refine)
        texts.append(t)
        obligations.update(o)
        aux.update(a or {})
    os.makedirs(workdir, exist_ok=True)
    gen_path = os.path.join(workdir, 'gen.rs')
    info = gen.generate(REPO, os.path.join(VERIF, 'contracts'), texts, out_path=gen_path, opaque=opaque, external=external, table_hints=table_hints, layout_hints=layout_hints, behavioural=behavioural, pred_hints=pred_hints, drop=drop)
    info.aux = aux
    return info, obligations, gen_path


def relevant_obligations(prop, info, lemma_obs):
    R = {}
    for oid, ob in info.obligations.items():
        if ob['kind'] == 'clause' and prop in ob['props']:
            R[oid] = ob
    for oid, ob in lemma_obs.items():
        R[oid] = ob
    if prop == 'C08':
        for f in info.functions:
            if f['has_body'] and not f['external_body']:
                R[f['key'] + '/safety'] = {'kind': 'safety', 'props': ['C08'], 'fn': f['key'],
                                          'text': 'no overflow / out-of-range shift / reachable panic in the body of %s under its precondition' % f['key']}
    return R


def dependencies(prop, info, R):
    """functions of /repo whose contract or denotation this property's argument rests on"""
    deps = set(ob['fn'] for ob in R.values() if ob.get('fn'))
    # a clause written on a trait method is discharged in every implementation: those bodies are dependencies too
    for ob in R.values():
        fn = ob.get('fn') or ''
        if fn.startswith('trait ') and '::' in fn:
            tname, meth = fn[len('trait '):].rsplit('::', 1)
            only = (ob.get('restricted') or {}).get(prop)
            for f in info.functions:
                k = f['key']
                if k.startswith(tname + ' for ') and k.endswith('::' + meth) and (not only or only in k):
                    deps.add(k)
    # everything those functions call (by name, over-approximated, transitively): a callee's contract is assumed at the
    # call site, so if the callee had to be left unverified the caller's verdict is void as well
    by_name = {}
    for f in info.functions:
        by_name.setdefault(f['key'].rsplit('::', 1)[-1], []).append(f)
        if f.get('real_name') and f['real_name'] != f['key'].rsplit('::', 1)[-1]:
            by_name.setdefault(f['real_name'], []).append(f)   # bodies call a renamed function by its current name
    calls = {f['key']: f.get('calls', []) for f in info.functions}
    types = set(f['key'].rsplit('::', 1)[0].split(' for ')[-1] for f in info.functions if '::' in f['key'])
    work = list(deps)
    while work:
        k = work.pop()
        my_type = k.rsplit('::', 1)[0].split(' for ')[-1]
        for name in calls.get(k, []):
            qual, _, name = name.rpartition('::')
            only_type = my_type if qual == 'Self' else (qual if qual in types else None)
            for g in by_name.get(name, []):
                if only_type and g['key'].rsplit('::', 1)[0].split(' for ')[-1] != only_type:
                    continue
                if name == 'map_keycode' and 'AnyLayout' in g['key'] and PROPS[prop].get('denotations') not in ('wrappers', 'all'):
                    continue   # the wrappers are only called by code that is generic in the layout
                if g['key'] not in deps:
                    deps.add(g['key'])
                    work.append(g['key'])
    kind = PROPS[prop].get('denotations', '')
    for f in info.functions:
        k = f['key']
        if kind in ('layouts', 'wrappers', 'all') and (k.startswith('KeyboardLayout for ') or k.startswith('Modifiers::is_')):
            # the two AnyLayout impls only matter to the wrapper property (and to C08)
            if 'AnyLayout' not in k or kind in ('wrappers', 'all'):
                deps.add(k)
        if kind in ('set1', 'tables', 'all') and k.startswith('ScancodeSet1::map_'):
            deps.add(k)
        if kind in ('set2', 'tables', 'all') and k.startswith('ScancodeSet2::map_'):
            deps.add(k)
        if kind == 'all':
            deps.add(k)
    return deps


def classify(prop, failures, R, info):
    """split Verus failures into those that concern this property and the rest"""
    mine, tool, other = [], [], []
    for f in failures:
        if f.kind == 'tool':
            tool.append(f)
            continue
        oid = f.oid
        if oid is None:
            tool.append(f)
            continue
        if oid in R:
            # a trait-level clause may carry a property only for one implementation (C01 is about Set 2, C02 about Set 1)
            restr = R[oid].get('restricted', {}).get(prop)
            site = getattr(f, 'site', None)
            if restr and site and restr not in site:
                other.append(f)
                continue
            if site and site != R[oid].get('fn'):
                f.detail = 'in %s; %s' % (site, f.detail)
            mine.append(f)
            continue
        m = re.match(r'^(.*)/call(?::(.*))?$', oid)
        if m:
            callee_clause = m.group(2)
            props = info.obligations.get(callee_clause, {}).get('props', []) if callee_clause else []
            if prop == 'C08' or prop in props:
                mine.append(f)
            else:
                other.append(f)
            continue
        if oid.endswith('/derived'):
            # wrong derivation is a tool problem for every property that uses the denotation
            tool.append(f)
            continue
        other.append(f)
    return mine, tool, other


def changed_functions(info):
    try:
        base = json.load(open(os.path.join(VERIF, 'spec', 'baseline_bodies.json'), encoding='utf-8'))['bodies']
    except Exception:
        return set()
    return set(f['key'] for f in info.functions if f['has_body'] and base.get(f['key']) != f['body_sha256'])


def offending_functions(tool, info):
    """functions of /repo that a tool (non-semantic) diagnostic points into"""
    keys = set()
    for f in tool:
        if f.oid and f.oid.endswith('/derived'):
            keys.add(f.oid[:-len('/derived')])
        for (a, b, p, l) in f.lines:
            r = verus.enclosing(info.region_ranges, a)
            if r and r[2] == 'derived':
                keys.add(r[3])
                continue
            fr = verus.enclosing(info.fn_ranges, a)
            if fr and not (r and r[2] in ('lemma', 'ghost')):
                keys.add(fr[2])
            elif not fr and (not r or r[2] == 'blk'):
                # (an associated constant sits inside an impl block's marker region)
                c = const_item_at(info, a)
                if c:
                    keys.add('const ' + c)
    return keys


def prunable(tool, info):
    """contract clauses / ghost blocks that a compile error (not a verification failure) points into"""
    out = set()
    for f in tool:
        if any(x in f.message for x in verus.SEMANTIC):
            continue
        for (a, b, p, l) in f.lines:
            if not p:
                continue
            hit = None
            for ln in range(a, b + 1):
                if ln in info.ob_lines:
                    hit = info.ob_lines[ln]
                    break
            if hit and info.obligations.get(hit, {}).get('kind') == 'clause':
                out.add(hit)
                continue
            r = verus.enclosing(info.region_ranges, a)
            if r and r[2] == 'ghost' and getattr(info, 'ghost_kinds', {}).get(r[3]) == 'impl':
                out.add(r[3])
            if r and r[2] == 'blk' and not verus.enclosing(info.fn_ranges, a):
                # an impl block that no longer type-checks as a whole (e.g. `impl Error for E {}` after the Display impl it
                # needs had to be left out): leave it out too, unless a contract sits on one of its functions
                hdr = r[3].split('|')[1]
                if not any(f['has_contract'] and f['key'].startswith(hdr + '::') for f in info.functions):
                    out.add('blk:' + r[3])
    return out


def const_item_at(info, line):
    """name of the const / static item of the crate whose initialiser contains generated line `line` (None if there is none)"""
    lines = info.text.split('\n')
    for ln in range(line, max(line - 12, 0), -1):
        t = lines[ln - 1] if 0 < ln <= len(lines) else ''
        m = re.match(r'^\s*(?:#\[[^\]]*\]\s*)*(?:pub(?:\([^)]*\))?\s+)?(?:const|static)\s+(\w+)\s*:', t)
        if m:
            return m.group(1)
        if ln != line and t.rstrip().endswith((';', '}')):
            return None
    return None


def write_replay(prop, oid, ob, info, res, failure=None, extra=None):
    d = os.path.join(SCRATCH, 'out', 'replay', prop)
    os.makedirs(d, exist_ok=True)
    path = os.path.join(d, sanitize(oid) + '.json')
    excerpt = []
    if failure is not None and info is not None:
        lines = info.text.split('\n')
        for (a, b, p, l) in failure.lines[:4]:
            for ln in range(a, min(b, a + 8) + 1):
                excerpt.append('%d: %s' % (ln, lines[ln - 1] if ln - 1 < len(lines) else ''))
    rec = {
        'property': prop,
        'obligation': oid,
        'obligation_text': (ob or {}).get('text', ''),
        'obligation_source': (ob or {}).get('src', ''),
        'verifier': 'verus ' + (res.version if res else ''),
        'verifier_message': failure.message if failure is not None else 'undecided by the deductive verifier; found by a stand-in on the real code',
        'verifier_spans': failure.detail if failure is not None else '',
        'generated_file_excerpt': excerpt,
        'checker_cmd': res.cmd if res else '',
        'counterexample': None,
        'replay': 're-run `./check %s --replay <this file>`: executes the recorded concrete input natively on /repo when there is one, otherwise re-verifies the obligation' % prop,
    }
    if extra:
        rec.update(extra)
    json.dump(rec, open(path, 'w', encoding='utf-8'), indent=1, ensure_ascii=False)
    return path


def summarize_dropped(dropped):
    s = {}
    for d in dropped:
        k = d['what'] if not d['what'].startswith('inner doc') else 'inner doc comment lines'
        s[k] = s.get(k, 0) + 1
    return s


def main(argv=None):
    ap = argparse.ArgumentParser()
    ap.add_argument('prop')
    ap.add_argument('--tier', default=os.environ.get('VERIF_TIER', 'quick'))
    ap.add_argument('--replay', default=None)
    args = ap.parse_args(argv)
    prop = args.prop
    tier = args.tier if args.tier in ('quick', 'thorough') else 'quick'
    try:
        seed = int(os.environ.get('VERIF_SEED', '0'))
    except ValueError:
        seed = 0
    if prop == 'C08':
        # C08 asks only whether anything panics: the native sweeps and replays ignore results that merely differ from the
        # executable specification (those are the other properties' hits) and keep going past them
        os.environ['SWEEP_PANIC_ONLY'] = '1'
    if prop in ('C06', 'C17', 'C18'):
        # relational properties: a panic of the real code takes both sides of the comparison down alike (C08's hit)
        os.environ['SWEEP_PANIC_NOT_MINE'] = '1'
    if prop == 'C06':
        # C06 is relational (bit-serial path == whole-word path of the real code): its sweeps compare with the real add_word
        os.environ['SWEEP_RELATIONAL'] = '1'
    if prop not in PROPS:
        print('unknown or not-applicable property %s' % prop)
        return 2
    if args.replay:
        from . import replay
        return replay.run(prop, args.replay)
    t0 = time.time()
    workdir = os.path.join(SCRATCH, 'build', prop)
    evidence = {
        'property_id': prop, 'tier': tier, 'seed': seed, 'level': 'proof',
        'coverage': {'obligations': 0, 'discharged': 0, 'checker_cmd': '', 'trusted_base': [], 'samples': []},
        'assumptions': list(PROPS[prop]['assume']), 'wall_s': 0.0, 'violations': 0,
    }
    cov = evidence['coverage']

    def finish(code, note=None):
        evidence['wall_s'] = round(time.time() - t0, 2)
        if note:
            cov['explanation'] = note
        os.makedirs(os.path.join(SCRATCH, 'evidence'), exist_ok=True)
        json.dump(evidence, open(os.path.join(SCRATCH, 'evidence', prop + '.json'), 'w', encoding='utf-8'), indent=1, ensure_ascii=False)
        return code

    undecided_reasons = []
    info = R = res = None
    mine, tool, other = [], [], []
    opaque = set()
    lemma_obs = {}

    # ------------------------------------------------------------------ deductive verdict
    try:
        external = set()
        behavioural = set()
        dropped = set()
        for attempt in range(12):
            info, lemma_obs, gen_path = build(prop, tier, seed, workdir, opaque=tuple(sorted(opaque)), external=tuple(sorted(external)), behavioural=tuple(sorted(behavioural)), drop=tuple(sorted(dropped)))
            R = relevant_obligations(prop, info, lemma_obs)
            res = verus.run(gen_path, info, seed=seed, multiple_errors=50)
            mine, tool, other = classify(prop, res.failures, R, info)
            opaque |= set(info.opaque)
            if not tool:
                break
            # contract text that does not even compile against the changed code (a ghost accessor reading a field that is
            # gone, a clause calling such an accessor): prune exactly those pieces and decide the rest
            prune = prunable(tool, info) - dropped
            if prune:
                dropped |= prune
                continue
            off = offending_functions(tool, info)
            if not off - external or all(f.oid is None and not f.lines for f in tool):
                # no usable location (e.g. an internal error of the verifier): suspect the functions that are new or whose
                # body differs from the baseline the contracts were written against
                off = off | (changed_functions(info) - external)
            # a layout whose textual copy the verifier rejects first gets a behavioural denotation; only if that is rejected
            # too does it become opaque
            lay = set(k for k in off if k.startswith('KeyboardLayout for ') and 'AnyLayout' not in k and k not in behavioural and k not in opaque)
            if lay:
                behavioural |= lay
                continue
            new = off - opaque
            again = (off & opaque) - external
            if not new and not again:
                break
            # the verifier cannot read these functions: leave them unverified and decide the rest; a function that is still
            # rejected as external_body (its very signature is unsupported) is hidden from the verifier altogether
            opaque |= new
            # an item of a trait impl cannot be hidden individually; it, and anything still rejected although hidden (the
            # `verus!` macro itself refuses its syntax), is left out of the verified text altogether
            stuck = set('fn:' + k for k in again if ' for ' in k) | set('fn:' + k for k in (off & external))
            newly_external = set(k for k in again if ' for ' not in k) - external
            external |= newly_external
            newly_stuck = stuck - dropped
            dropped |= newly_stuck
            if not new and not newly_external and not newly_stuck:
                break
        # refine failing coarse units cell by cell so that the failing cells are named
        coarse_failed = sorted(set(R[f.oid]['unit'] for f in mine if f.oid in R and R[f.oid]['kind'] == 'coarse' and f.kind == 'semantic'))
        refined = False
        if coarse_failed and tier != 'thorough' and not tool:
            info, lemma_obs, gen_path = build(prop, tier, seed, workdir, refine=tuple(coarse_failed), opaque=tuple(sorted(opaque)), external=tuple(sorted(external)), behavioural=tuple(sorted(behavioural)), drop=tuple(sorted(dropped)))
            R = relevant_obligations(prop, info, lemma_obs)
            res = verus.run(gen_path, info, seed=seed, multiple_errors=50)
            mine, tool, other = classify(prop, res.failures, R, info)
            refined = True
        # a coarse lemma whose unit also has failing cells is subsumed by those cells
        units_with_failing_cells = set(R[f.oid]['unit'] for f in mine if f.oid in R and R[f.oid]['kind'] == 'cell')
        kept = []
        for f in mine:
            ob = R.get(f.oid)
            if ob and ob['kind'] == 'coarse' and f.kind == 'semantic':
                if ob['unit'] in units_with_failing_cells:
                    continue
                if refined or tier == 'thorough':
                    # quantified form fails although every cell verifies: solver incompleteness, not a violation
                    f.kind = 'undecided'
                    f.message = 'quantified lemma not proved although all its cells verify: ' + f.message
            kept.append(f)
        mine = kept
    except (ExtractError, SpecError) as e:
        undecided_reasons.append('extraction: %s' % e)
        info = None

    deductive_ok = info is not None
    if deductive_ok:
        deps = dependencies(prop, info, R)
        # a lost contract of a *private* helper is only a lost stepping stone: the public contracts still have to be proved,
        # now from whatever the body calls instead. A lost public function is a lost anchor of the property itself.
        lost_here = [k for (k, props) in info.lost if (prop in props or k in deps) and k not in info.private_contracts]
        opaque_here = sorted(k for k in opaque if k in deps)
        if lost_here:
            undecided_reasons.append('lost-anchor: function(s) under contract no longer exist: ' + ', '.join(lost_here))
        if info.lost_ghosts:
            undecided_reasons.append('lost-anchor: ghost section(s) with no matching item: ' + ', '.join(info.lost_ghosts))
        if opaque_here:
            undecided_reasons.append('function(s) outside the verifier\'s dialect, left unverified: ' + ', '.join(opaque_here))
        if prop == 'C08' and any(f.oid == '<unattributed>/safety' for f in other):
            undecided_reasons.append('verification failure in executable code that belongs to no function the extractor knows (macro-generated items): ' +
                                     '; '.join(sorted(set(f.message[:80] for f in other if f.oid == '<unattributed>/safety'))[:3]))
        excluded_here = sorted(k for k in getattr(info, 'excluded', []) if prop == 'C08' and k not in opaque_here)
        if excluded_here:
            undecided_reasons.append('function(s) whose syntax the verifier rejects, left out of the verified text: ' + ', '.join(excluded_here))
        dropped_here = sorted(oid for oid, ps in getattr(info, 'dropped_clauses', []) if prop in ps or prop == 'C08')
        if dropped_here:
            undecided_reasons.append('contract clause(s) that no longer compile against the changed code (its state representation differs from the one the ghost view reads): ' + ', '.join(dropped_here[:8]))
        if tool or res.crashed:
            for f in tool[:3]:
                undecided_reasons.append('tool: %s [%s]' % (f.message[:200], f.detail[:120]))
            if res.crashed and not tool:
                undecided_reasons.append('verus did not complete')
        if len(R) == 0:
            undecided_reasons.append('vacuous: no obligations generated')
        n_exec = sum(1 for f in info.functions if f['has_body'] and not f['external_body'])
        if not (tool or res.crashed) and res.verified + res.errors < n_exec:
            undecided_reasons.append('vacuous run: Verus checked %d items but the crate has %d exec functions' % (res.verified + res.errors, n_exec))
        if info.invariant_audit and PROPS[prop].get('needs_invariants', True):
            # only the invariants of types this property's dependencies belong to matter to it
            dep_types = set(k.rsplit('::', 1)[0].split(' for ')[-1] for k in dependencies(prop, info, R)
                            if k.rsplit('::', 1)[-1] not in ('new', 'default'))
            mine_audit = [a for a in info.invariant_audit if any((' %s ' % t) in (' ' + a.replace('::', ' ') + ' ') for t in dep_types if t)]
            if mine_audit:
                undecided_reasons.append('invariant audit (assumption A5): ' + '; '.join(mine_audit))
    # anything that makes the deductive argument incomplete voids its verdicts (a failed clause may be an artefact)
    verdicts_valid = deductive_ok and not undecided_reasons

    # ------------------------------------------------------------------ thorough extras / assumptions
    extra_cov = {}
    kani_cov = {}
    if deductive_ok:
        if tier == 'thorough' and verdicts_valid:
            from . import thorough
            thorough.run(prop, info, gen_path, R, seed, extra_cov, undecided_reasons, mine)
        if PROPS[prop].get('kani'):
            from . import kani
            ok, kani_cov, why = kani.discharge(PROPS[prop]['kani'], info, tier)
            if not ok:
                undecided_reasons.append('assumption not discharged by Kani: ' + why)

    # a safety obligation that fails inside a function nobody wrote a contract for (a helper a refactoring introduced) needs a
    # precondition only its callers can justify: "needs-contract" is undecided, not a violation (the stand-ins still run)
    if deductive_ok:
        contracted = set(f['key'] for f in info.functions if f['has_contract'])
        for f in mine:
            if f.kind == 'semantic' and f.oid and (f.oid.endswith('/safety') or '/call' in f.oid):
                fn = f.oid.split('/safety')[0].split('/call')[0]
                if fn not in contracted:
                    f.kind = 'undecided'
                    f.message = 'needs-contract: %s in %s, a function without a contract' % (f.message, fn)
    # clauses of *other* components that this property's argument merely rests on (C18: the three stages' own contracts; the
    # property is that Keyboard forwards to them faithfully): when one of them fails the argument is incomplete, but the
    # property itself may well hold - undecided, and its stand-ins (Keyboard against the real stages) decide
    sup = PROPS[prop].get('support_fns')
    if sup and deductive_ok:
        for f in mine:
            if f.kind == 'semantic' and f.oid in R and R[f.oid].get('kind') == 'clause' and re.search(sup, R[f.oid].get('fn') or ''):
                site = getattr(f, 'site', None) or ''
                if site.startswith('Keyboard::'):
                    continue
                f.kind = 'undecided'
                f.support = True
                f.message = 'a contract this property rests on fails (%s): its own argument is incomplete' % f.message
    findings = load_findings()
    open_f = {(x['property'], x['obligation']): x for x in findings if x.get('status') == 'open'}
    # the `#observed` twin of a listed cell only says "the defect still has its recorded shape"; when the cell itself is
    # discharged (the defect has been repaired) the twin's failure means nothing
    failed_now = set(f.oid for f in mine if f.kind == 'semantic')
    mine = [f for f in mine if not (f.oid and f.oid.endswith('#observed') and f.oid[:-len('#observed')] not in failed_now)]
    violations, known_hit, undecided = [], [], []
    if deductive_ok:
        seen = set()
        for f in mine:
            if f.kind == 'undecided':
                undecided.append(f)
                continue
            if f.kind != 'semantic' or f.oid in seen:
                continue
            seen.add(f.oid)
            k = open_f.get((prop, f.oid))
            if k:
                known_hit.append(k)
            elif verdicts_valid:
                violations.append(f)
            else:
                undecided.append(f)

    # ------------------------------------------------------------------ evidence
    if deductive_ok:
        n_ob = len(R)
        known_ids = set(k['obligation'] for k in known_hit)
        failed_in_R = set(f.oid for f in mine if f.oid in R)
        cov['obligations'] = n_ob - len(known_ids & failed_in_R) + len(kani_cov)
        cov['discharged'] = max(0, n_ob - len(failed_in_R)) + sum(1 for v in kani_cov.values() if v.get('ok'))
        cov['excluded_known_findings'] = sorted(known_ids)
        cov['by_back_end'] = {
            'verus': {'obligations': n_ob, 'failed': sorted(set(f.oid for f in mine)), 'verified_items_total': res.verified, 'errors_total': res.errors,
                      'solver_ms': res.times.get('smt', {}).get('total'), 'wall_ms': res.times.get('total'), 'version': res.version},
            'kani': kani_cov,
        }
        cov['checker_cmd'] = 'cd build/%s && %s' % (prop, res.cmd)
        cov['trusted_base'] = list(PROPS[prop]['assume'])
        cov['technique'] = PROPS[prop]['technique']
        by_kind = {}
        for oid, ob in R.items():
            by_kind[ob['kind']] = by_kind.get(ob['kind'], 0) + 1
        cov['obligation_kinds'] = by_kind
        cov['functions_under_contract'] = sorted(set(ob.get('fn') for ob in R.values() if ob.get('fn')))
        cov['extraction'] = {
            'files': [{'path': os.path.relpath(f['path'], REPO), 'sha256': f['sha256']} for f in info.files],
            'bodies_verbatim': info.bodies_verbatim, 'bodies_digest': info.bodies_digest,
            'dropped': summarize_dropped(info.dropped),
            'added': 'ghost only: contracts from contracts/*.vspec, ghost accessors/invariants, derived spec copies, Structural derives, proof prologues in %d bodies' % sum(1 for f in info.functions if f['prologue']),
            'derived_denotations': [d['fn'] for d in info.derived],
            'unsafe_blocks': info.unsafe, 'loops_in_exec_code': info.loops,
            'followed_renames': (info.follow.as_dict() if getattr(info, 'follow', None) is not None else {}),
            'hand_written_structural_markers': list(getattr(info, 'manual_structural', [])),
            'left_unverified_this_run': sorted(opaque), 'lost_anchors': [k for k, _ in info.lost] + info.lost_ghosts,
        }
        ids = list(R)
        cov['samples'] = [{'obligation': oid, 'kind': R[oid]['kind'], 'formula': R[oid].get('text', '')[:400]} for oid in ids[:3] + ids[-3:]]
        cov['known_findings_hit'] = [k['obligation'] for k in known_hit]
        cov['other_properties_failing'] = sorted(set(f.oid for f in other if f.oid))
        cov.update(extra_cov)
        if getattr(info, 'aux', None):
            cov.update(info.aux)

    for k in known_hit:
        print('KNOWN-FINDING: property=%s %s: %s' % (prop, k['obligation'], k.get('what', '')))

    # ------------------------------------------------------------------ violations from the deductive verdict
    real = []
    if violations:
        from . import cex
        for i, f in enumerate(violations):
            if i < 12:
                try:
                    extra = cex.find(prop, f, R, info)
                except Exception as e:  # counterexample search is best effort
                    extra = {'counterexample': None, 'counterexample_search': 'failed: %r' % (e,)}
            else:
                extra = {'counterexample': None, 'counterexample_search': 'skipped: more than 12 violations in this run'}
            if extra and extra.get('spurious_bounded') and f.message.startswith('postcondition not satisfied'):
                # a *functional* clause on a real function is rejected, but neither Kani nor the exhaustive native sweeps of
                # its scenario family find a failing input on the real code: a proof that no longer goes through, not an
                # observed violation. Safety obligations (overflow, shift range, reachable panic, call-site preconditions)
                # are NOT downgraded: an operation that can overflow unless some unproved invariant holds is exactly what
                # C08 is about, and deep histories are beyond any bounded search.
                undecided_reasons.append('verifier rejects %s (%s) but Kani and the exhaustive native sweeps [%s] find no failing input on the real code: proof incomplete after the change, reported undecided' % (
                    f.oid, f.message, extra.get('sweeps_held', '')))
                continue
            if extra and extra.get('spurious'):
                # a complete stand-in executed the obligation's whole finite input domain on the real code and it holds
                undecided_reasons.append('verifier rejects %s but complete native execution of its finite domain finds no failing input (solver incompleteness)' % f.oid)
                continue
            path = write_replay(prop, f.oid, R.get(f.oid) or info.obligations.get((f.oid or '').split('/call:')[-1]), info, res, f, extra)
            real.append((f.oid, path, extra))

    # ------------------------------------------------------------------ clauses rejected while the deductive argument is incomplete
    # (an opaque function, a lost anchor ...): the rejection itself proves nothing, but the clause's scenario family can still
    # be searched for a concrete failing input on the real code - and a reproduced counterexample is a violation regardless
    if not real and undecided and not verdicts_valid and deductive_ok:
        from . import cex
        tried_fam = set()
        for f in [x for x in undecided if x.kind == 'semantic' and not getattr(x, 'support', False) and x.oid in R and R[x.oid].get('kind') == 'clause'][:6]:
            fam = (R[f.oid].get('fn'), )
            if fam in tried_fam:
                continue
            tried_fam.add(fam)
            try:
                extra = cex.find(prop, f, R, info)
            except Exception as e:
                extra = None
            ce = (extra or {}).get('counterexample')
            if ce and ((extra or {}).get('native_replay') or {}).get('reproduced'):
                path = write_replay(prop, f.oid, R.get(f.oid), info, res, f, extra)
                real.append((f.oid, path, extra))
                break

    # ------------------------------------------------------------------ stand-ins when the deductive verdict is undecided (and always in the thorough tier)
    standin_cov = None
    if not real and (undecided_reasons or undecided or tier == 'thorough'):
        from . import standin
        try:
            hits, standin_cov = standin.run(prop, tier, known=set(o for (p, o) in open_f if p == prop))
        except Exception as e:
            hits, standin_cov = [], {'error': repr(e)}
        cov['stand_ins'] = standin_cov
        for h in hits[:12]:
            path = write_replay(prop, h['obligation'], {'text': h.get('text', '')}, info, res, None, h['extra'])
            real.append((h['obligation'], path, h['extra']))

    if real:
        for oid, path, extra in real:
            ce = (extra or {}).get('counterexample')
            if ce and ce.get('description'):
                print('  counterexample: %s' % ce['description'][:500])
            print('VIOLATION property=%s replay=%s obligation=%s%s' % (prop, path, oid, '' if ce else ' no-failing-input-found'))
        evidence['violations'] = len(real)
        return finish(1)

    if undecided or undecided_reasons:
        for f in undecided[:5]:
            print('UNDECIDED property=%s reason=%s obligation=%s' % (prop, f.message[:200], f.oid))
        for r in undecided_reasons:
            print('UNDECIDED property=%s reason=%s' % (prop, r[:400]))
        if standin_cov is not None:
            print('  stand-ins (bounded / exhaustive native runs on the real code) found no failing input: %s' % json.dumps(standin_cov.get('ran', standin_cov))[:600])
        evidence['level'] = 'other'
        return finish(2, ('undecided by the deductive verifier: ' + '; '.join([f.message[:100] for f in undecided] + undecided_reasons))[:1500]
                      + ' | stand-ins found no failing input (not a proof)')

    print('OK property=%s tier=%s obligations=%d discharged=%d known_findings=%d verus_wall=%.1fs' % (
        prop, tier, cov['obligations'], cov['discharged'], len(known_hit), res.wall_s))
    return finish(0)


if __name__ == '__main__':
    sys.exit(main())
