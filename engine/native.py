"""Build and run the native replayer (bin crate with a path dependency on the repository under check)."""
import fcntl
import hashlib
import json
import os
import shutil
import subprocess

VERIF = os.path.dirname(os.path.dirname(os.path.abspath(__file__)))
REPO = os.environ.get('VERIF_REPO', '/repo')
# build output, replay files and evidence go under VERIF unless a scratch root is given (self-tests on mutated copies)
SCRATCH = os.environ.get('VERIF_SCRATCH') or VERIF


class NativeError(Exception):
    pass


def wrapped_layouts(info):
    """layouts that are variants of the runtime-selectable wrapper (a new layout need not be)"""
    lay = [l for l in info.layouts if 'AnyLayout' not in l]
    variants = getattr(getattr(info, 'follow', None), 'cur_enums', {}).get('AnyLayout')
    return [l for l in lay if variants is None or l in variants]


def generated_rs(info):
    lay = [l for l in info.layouts if 'AnyLayout' not in l]
    wrapped = wrapped_layouts(info)
    out = ['// generated on every run from %s' % REPO, 'use pc_keyboard::*;', 'use pc_keyboard::layouts::*;',
           'pub const KEYCODES: &[(&str, KeyCode)] = &[']
    for k in info.keycodes:
        out.append('    ("%s", KeyCode::%s),' % (k, k))
    out.append('];')
    out.append('pub const LAYOUTS: &[&str] = &[%s];' % ', '.join('"%s"' % l for l in lay))
    out.append('pub fn any_layout(name: &str) -> Option<AnyLayout> {')
    out.append('    match name {')
    for l in wrapped:
        out.append('        "%s" => Some(AnyLayout::%s(%s)),' % (l, l, l))
    out.append('        _ => None,')
    out.append('    }')
    out.append('}')
    out.append('pub fn layout_map(name: &str, k: KeyCode, m: &Modifiers, h: HandleControl) -> Option<DecodedKey> {')
    out.append('    match name {')
    for l in lay:
        out.append('        "%s" => Some(KeyboardLayout::map_keycode(&%s, k, m, h)),' % (l, l))
        if l in wrapped:
            out.append('        "Any:%s" => Some(KeyboardLayout::map_keycode(&AnyLayout::%s(%s), k, m, h)),' % (l, l, l))
            out.append('        "RefAny:%s" => {{ let a = AnyLayout::%s(%s); let r = &a; Some(KeyboardLayout::map_keycode(&r, k, m, h)) }}' % (l, l, l))
    out.append('        _ => None,')
    out.append('    }')
    out.append('}')
    return '\n'.join(out) + '\n'


def xgen_rs(info):
    """generated items used by xspec.rs: KeyCode by index, reference scancode tables (None = known-finding gap), layout dispatch.
    Layouts are always called through the trait (`KeyboardLayout::map_keycode(&L, ..)`): that is what a generic user such as
    `EventDecoder<L>` gets, whereas method syntax on the concrete type would pick an inherent method of the same name"""
    import json as _json
    out = ['// generated on every run', 'pub const X_NKEYS: u8 = %d;' % len(info.keycodes), 'pub fn x_keycode(i: u8) -> KeyCode {', '    match i % X_NKEYS {']
    for i, k in enumerate(info.keycodes):
        out.append('        %d => KeyCode::%s,' % (i, k))
    out.append('        _ => KeyCode::%s,' % info.keycodes[0])
    out.append('    }')
    out.append('}')
    ref = _json.load(open(os.path.join(VERIF, 'spec', 'scancodes.json'), encoding='utf-8'))
    fp = os.path.join(VERIF, 'known_findings.json')
    gaps = set()
    if os.path.exists(fp):
        for f in _json.load(open(fp, encoding='utf-8')).get('findings', []):
            if f.get('status') == 'open' and f['property'] in ('C01', 'C02'):
                gaps.add(f['obligation'])
    out.append('/// reference table (spec/scancodes.json): Some(Ok(key)) / Some(Err(UnknownKeyCode)); None for cells listed as open known findings')
    out.append('pub fn ref_table(set: u8, ctx: u8, code: u8) -> Option<Result<KeyCode, Error>> {')
    out.append('    match (set, ctx, code) {')
    for setn, sn, prop in (('set1', 1, 'C02'), ('set2', 2, 'C01')):
        for ci, ctx in enumerate(('plain', 'e0', 'e1')):
            for code, key in sorted(ref[setn][ctx].items(), key=lambda kv: int(kv[0], 16)):
                cid = '%s/%s/%s/%s' % (prop, setn, ctx, code)
                if cid in gaps:
                    out.append('        (%d, %d, %s) => None,' % (sn, ci, code))
                elif key in info.keycodes:
                    out.append('        (%d, %d, %s) => Some(Ok(KeyCode::%s)),' % (sn, ci, code, key))
            for g in sorted(gaps):
                pr, s_, c_, code = g.split('/')
                if s_ == setn and c_ == ctx and code not in ref[setn][ctx]:
                    out.append('        (%d, %d, %s) => None,' % (sn, ci, code))
    out.append('        _ => Some(Err(Error::UnknownKeyCode)),')
    out.append('    }')
    out.append('}')
    lay = [l for l in info.layouts if 'AnyLayout' not in l]
    out.append('pub const X_NLAYOUTS: u8 = %d;' % len(lay))
    out.append('pub fn x_layout_call(layout: u8, form: u8, k: KeyCode, m: &Modifiers, h: HandleControl) -> DecodedKey {')
    out.append('    match (layout % X_NLAYOUTS, form % 3) {')
    for i, l in enumerate(lay):
        out.append('        (%d, 0) => KeyboardLayout::map_keycode(&%s, k, m, h),' % (i, l))
        if l in wrapped_layouts(info):
            out.append('        (%d, 1) => KeyboardLayout::map_keycode(&AnyLayout::%s(%s), k, m, h),' % (i, l, l))
            out.append('        (%d, _) => {{ let a = AnyLayout::%s(%s); let r = &a; KeyboardLayout::map_keycode(&r, k, m, h) }}' % (i, l, l))
        else:
            out.append('        (%d, _) => KeyboardLayout::map_keycode(&%s, k, m, h),   // not a variant of AnyLayout' % (i, l))
    out.append('        _ => DecodedKey::RawKey(k),')
    out.append('    }')
    out.append('}')
    out.append('pub const X_LAYOUT_NAMES: &[&str] = &[%s];' % ', '.join('"%s"' % l for l in lay))
    return '\n'.join(out) + '\n'


def build(info):
    """returns path of the replayer binary built against REPO's current tree"""
    tag = hashlib.sha256(REPO.encode()).hexdigest()[:8]
    d = os.path.join(SCRATCH, 'build', 'replayer-' + tag)
    os.makedirs(os.path.join(d, 'src'), exist_ok=True)
    lockf = open(os.path.join(d, '.lock'), 'w')
    fcntl.flock(lockf, fcntl.LOCK_EX)
    try:
        def put(path, text):
            if not os.path.exists(path) or open(path).read() != text:
                open(path, 'w').write(text)
        put(os.path.join(d, 'Cargo.toml'), open(os.path.join(VERIF, 'replayer', 'Cargo.toml.in')).read().replace('@REPO@', REPO))
        for fn in os.listdir(os.path.join(VERIF, 'replayer', 'src')):
            put(os.path.join(d, 'src', fn), open(os.path.join(VERIF, 'replayer', 'src', fn)).read())
        put(os.path.join(d, 'src', 'generated.rs'), generated_rs(info))
        put(os.path.join(d, 'src', 'xgen.rs'), xgen_rs(info))
        env = dict(os.environ)
        env['CARGO_NET_OFFLINE'] = 'true'
        env['CARGO_TARGET_DIR'] = os.path.join(d, 'target')
        p = subprocess.run(['cargo', 'build', '--offline', '--quiet', '--release'], cwd=d, env=env, capture_output=True, text=True, timeout=600)
        if p.returncode != 0:
            raise NativeError('replayer does not build against %s: %s' % (REPO, p.stderr[-1500:]))
        return os.path.join(d, 'target', 'release', 'pckb-replayer')
    finally:
        fcntl.flock(lockf, fcntl.LOCK_UN)
        lockf.close()


def run(binpath, args, timeout=120):
    p = subprocess.run([binpath] + list(args), capture_output=True, text=True, timeout=timeout)
    return p.returncode, p.stdout.strip(), p.stderr.strip()


_HINTS = {}


def hints(info, what):
    """`tables` or `layouts` dump as a dict (untrusted hints: everything derived from them is re-checked by Verus)"""
    if what in _HINTS:
        return _HINTS[what]
    b = build(info)
    rc, out, err = run(b, [what])
    if rc != 0:
        raise NativeError('replayer %s failed: %s' % (what, err[-500:]))
    _HINTS[what] = json.loads(out)
    return _HINTS[what]
