"""Build and run the native replayer (bin crate with a path dependency on the repository under check)."""
import fcntl
import hashlib
import json
import os
import shutil
import subprocess

VERIF = os.path.dirname(os.path.dirname(os.path.abspath(__file__)))
REPO = os.environ.get('VERIF_REPO', '/repo')


class NativeError(Exception):
    pass


def generated_rs(info):
    lay = [l for l in info.layouts if 'AnyLayout' not in l]
    out = ['// generated on every run from %s' % REPO, 'use pc_keyboard::*;', 'use pc_keyboard::layouts::*;',
           'pub const KEYCODES: &[(&str, KeyCode)] = &[']
    for k in info.keycodes:
        out.append('    ("%s", KeyCode::%s),' % (k, k))
    out.append('];')
    out.append('pub const LAYOUTS: &[&str] = &[%s];' % ', '.join('"%s"' % l for l in lay))
    out.append('pub fn any_layout(name: &str) -> Option<AnyLayout> {')
    out.append('    match name {')
    for l in lay:
        out.append('        "%s" => Some(AnyLayout::%s(%s)),' % (l, l, l))
    out.append('        _ => None,')
    out.append('    }')
    out.append('}')
    out.append('pub fn layout_map(name: &str, k: KeyCode, m: &Modifiers, h: HandleControl) -> Option<DecodedKey> {')
    out.append('    match name {')
    for l in lay:
        out.append('        "%s" => Some(%s.map_keycode(k, m, h)),' % (l, l))
        out.append('        "Any:%s" => Some(AnyLayout::%s(%s).map_keycode(k, m, h)),' % (l, l, l))
        out.append('        "RefAny:%s" => {{ let a = AnyLayout::%s(%s); let r = &a; Some(r.map_keycode(k, m, h)) }}' % (l, l, l))
    out.append('        _ => None,')
    out.append('    }')
    out.append('}')
    return '\n'.join(out) + '\n'


def build(info):
    """returns path of the replayer binary built against REPO's current tree"""
    tag = hashlib.sha256(REPO.encode()).hexdigest()[:8]
    d = os.path.join(VERIF, 'build', 'replayer-' + tag)
    os.makedirs(os.path.join(d, 'src'), exist_ok=True)
    lockf = open(os.path.join(d, '.lock'), 'w')
    fcntl.flock(lockf, fcntl.LOCK_EX)
    try:
        def put(path, text):
            if not os.path.exists(path) or open(path).read() != text:
                open(path, 'w').write(text)
        put(os.path.join(d, 'Cargo.toml'), open(os.path.join(VERIF, 'replayer', 'Cargo.toml.in')).read().replace('@REPO@', REPO))
        put(os.path.join(d, 'src', 'main.rs'), open(os.path.join(VERIF, 'replayer', 'src', 'main.rs')).read())
        put(os.path.join(d, 'src', 'generated.rs'), generated_rs(info))
        env = dict(os.environ)
        env['CARGO_NET_OFFLINE'] = 'true'
        env['CARGO_TARGET_DIR'] = os.path.join(d, 'target')
        p = subprocess.run(['cargo', 'build', '--offline', '--quiet'], cwd=d, env=env, capture_output=True, text=True, timeout=600)
        if p.returncode != 0:
            raise NativeError('replayer does not build against %s: %s' % (REPO, p.stderr[-1500:]))
        return os.path.join(d, 'target', 'debug', 'pckb-replayer')
    finally:
        fcntl.flock(lockf, fcntl.LOCK_UN)
        lockf.close()


def run(binpath, args, timeout=120):
    p = subprocess.run([binpath] + list(args), capture_output=True, text=True, timeout=timeout)
    return p.returncode, p.stdout.strip(), p.stderr.strip()


def hints(info, what):
    """`tables` or `layouts` dump as a dict (untrusted hints: everything derived from them is re-checked by Verus)"""
    b = build(info)
    rc, out, err = run(b, [what])
    if rc != 0:
        raise NativeError('replayer %s failed: %s' % (what, err[-500:]))
    return json.loads(out)
