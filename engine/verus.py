"""Run Verus on a generated file and attribute every diagnostic to an obligation id."""
import json
import os
import subprocess
import time

SEMANTIC = (
    'postcondition not satisfied',
    'precondition not satisfied',
    'assertion failed',
    'assertion not satisfied',
    'possible arithmetic underflow/overflow',
    'possible bit shift underflow/overflow',
    'possible division by zero',
    'recommendation not met',
    'invariant not satisfied',
    'unable to prove assertion',
    'decreases not satisfied',
)
UNDECIDED = ('Resource limit (rlimit) exceeded', 'rlimit', 'timed out', 'Timeout')


class Failure:
    def __init__(self, oid, kind, message, lines, detail=''):
        self.oid = oid          # obligation id or None
        self.kind = kind        # 'semantic' | 'undecided' | 'tool'
        self.message = message
        self.lines = lines
        self.detail = detail
        self.site = None        # function in which a (trait) clause failed

    def as_dict(self):
        return {'obligation': self.oid, 'kind': self.kind, 'message': self.message, 'lines': self.lines, 'detail': self.detail}


class VerusResult:
    def __init__(self):
        self.ok = False
        self.verified = 0
        self.errors = 0
        self.failures = []
        self.times = {}
        self.cmd = ''
        self.wall_s = 0.0
        self.stderr = ''
        self.fn_times = {}
        self.version = ''
        self.crashed = False


def run(gen_path, info, extra=(), multiple_errors=50, rlimit=None, seed=None, timeout=1500, verify_modules=()):
    try:
        info.gen_path = gen_path
    except Exception:
        pass
    cmd = ['verus', os.path.basename(gen_path), '--multiple-errors', str(multiple_errors), '--output-json', '--time-expanded',
           '--error-format=json']
    if rlimit:
        cmd += ['--rlimit', str(rlimit)]
    if seed is not None and seed != 0:
        cmd += ['--smt-option', 'smt.random_seed=%d' % (seed % 100000), '--smt-option', 'sat.random_seed=%d' % (seed % 100000)]
    for m in verify_modules:
        cmd += ['--verify-module', m]
    cmd += list(extra)
    res = VerusResult()
    res.cmd = ' '.join(cmd)
    t0 = time.time()
    try:
        p = subprocess.run(cmd, cwd=os.path.dirname(gen_path), capture_output=True, text=True, timeout=timeout)
    except subprocess.TimeoutExpired:
        res.wall_s = time.time() - t0
        res.failures.append(Failure(None, 'undecided', 'verus timed out after %ds' % timeout, []))
        res.crashed = True
        return res
    res.wall_s = time.time() - t0
    res.stderr = p.stderr
    try:
        out = json.loads(p.stdout)
    except Exception:
        res.crashed = True
        res.failures.append(Failure(None, 'tool', 'verus produced no JSON summary (exit %d)' % p.returncode, [], p.stderr[-2000:]))
        return res
    vr = out.get('verification-results', {})
    res.verified = vr.get('verified', 0)
    res.errors = vr.get('errors', 0)
    res.ok = bool(vr.get('success'))
    res.times = out.get('times-ms', {})
    res.version = out.get('verus', {}).get('version', '')
    smt = res.times.get('smt', {})
    for m in smt.get('smt-run-module-times', []):
        for f in m.get('function-breakdown', []):
            res.fn_times[f['function']] = f.get('time', 0)
    if vr.get('encountered-vir-error'):
        res.crashed = True
    for line in p.stderr.split('\n'):
        line = line.strip()
        if not line.startswith('{'):
            continue
        try:
            d = json.loads(line)
        except Exception:
            continue
        if d.get('level') != 'error':
            continue
        msg = d.get('message', '')
        if msg.startswith('aborting due to'):
            continue
        res.failures.append(attribute(d, info))
    if not res.ok and not res.failures:
        res.failures.append(Failure(None, 'tool', 'verus reported failure without diagnostics', [], p.stderr[-2000:]))
    return res


def enclosing(ranges, line):
    best = None
    for r in ranges:
        if r[0] <= line <= r[1]:
            if best is None or (r[1] - r[0]) < (best[1] - best[0]):
                best = r
    return best


def attribute(d, info):
    msg = d.get('message', '')
    spans = d.get('spans', [])
    # a span inside a macro of another crate (`write!`, `matches!` ... expand in core's sources) carries that file's line
    # numbers: follow the expansion chain back to the invocation in the generated file; drop the span if there is none
    own = os.path.basename(getattr(info, 'gen_path', '') or 'gen.rs')

    def local(sp):
        seen = 0
        while sp is not None and seen < 8:
            fn = sp.get('file_name') or ''
            if os.path.basename(fn) == own and not fn.startswith('/rustc/'):
                return sp
            sp = (sp.get('expansion') or {}).get('span')
            seen += 1
        return None
    lines = []
    for s in spans:
        ls = local(s)
        if ls is not None:
            lines.append((ls['line_start'], ls['line_end'], bool(s.get('is_primary')), s.get('label') or ''))
    sem = any(msg.startswith(x) or x in msg for x in SEMANTIC)
    und = any(x in msg for x in UNDECIDED)
    kind = 'undecided' if und else ('semantic' if sem else 'tool')
    detail = '; '.join('%d-%d%s %s' % (a, b, '*' if p else '', l) for a, b, p, l in lines)

    def ob_at(a, b):
        for ln in range(a, b + 1):
            if ln in info.ob_lines:
                return info.ob_lines[ln]
        return None

    def cell_at(a, b):
        for ln in range(a, min(b, a + 3) + 1):
            if ln in info.cell_lines:
                return info.cell_lines[ln]
        return None

    # 1. a span on a contract clause
    clause = None
    for a, b, p, l in lines:
        o = ob_at(a, b)
        if o and (a == b or b - a < 12):
            clause = o
            break
    # the location where it failed (call site / function exit)
    site_fn = None
    site_region = None
    site_cell = None
    for a, b, p, l in lines:
        if ob_at(a, a):
            continue
        c = cell_at(a, b)
        if c:
            site_cell = c
        r = enclosing(info.region_ranges, a)
        if r and site_region is None:
            site_region = r
        f = enclosing(info.fn_ranges, a)
        if f and site_fn is None:
            site_fn = f
    if kind == 'tool':
        return Failure(None, 'tool', msg, lines, detail)
    if site_cell:
        return Failure(site_cell, kind, msg, lines, detail)
    if site_region and site_region[2] == 'lemma':
        return Failure(site_region[3], kind, msg, lines, detail)
    if msg.startswith('postcondition not satisfied') and clause:
        f = Failure(clause, kind, msg, lines, detail)
        f.site = site_fn[2] if site_fn else None
        return f
    if msg.startswith('precondition not satisfied'):
        if site_fn:
            return Failure('%s/call' % site_fn[2] + ((':' + clause) if clause else ''), kind, msg, lines, detail)
    if clause and not site_fn:
        return Failure(clause, kind, msg, lines, detail)
    if site_fn:
        if site_region and site_region[2] in ('ghost', 'derived'):
            return Failure(None, 'tool', msg + ' (inside ghost region %s)' % site_region[3], lines, detail)
        return Failure('%s/safety' % site_fn[2], kind, msg, lines, detail)
    if kind == 'semantic' and (site_region is None or site_region[2] == 'blk'):
        # a verification failure in executable code that belongs to no function the extractor knows (macro-generated
        # items): it concerns no contract; only C08 (all code returns normally) has to mention it
        return Failure('<unattributed>/safety', kind, msg, lines, detail)
    if site_region:
        return Failure(None, 'tool' if kind == 'semantic' else kind, msg + ' (inside %s region %s)' % (site_region[2], site_region[3]), lines, detail)
    return Failure(None, 'tool' if kind == 'semantic' else kind, msg, lines, detail)
