"""Writes /verif/MANIFEST.json from engine/props.py (run: python3 -m engine.manifest)."""
import json
import os
from .props import PROPS

VERIF = os.path.dirname(os.path.dirname(os.path.abspath(__file__)))
ALL = ['C%02d' % i for i in range(1, 21)]
NA = {
    'C20': 'const-evaluability and Send/Sync are judgements of rustc\'s const checker and auto-trait solver about the program text, not facts about '
           'values that a pre/postcondition, invariant or lemma can state; no Verus or Kani obligation changes when `const` is removed or a '
           '!Send field is added. Compiling a probe crate would settle it but is a type-checking technique, not contract-based deduction '
           '(DESIGN.md section 3, C20).',
}
PENDING = 'check under construction in this session: not claimed until its obligations verify on the unchanged tree (see DESIGN.md section 3)'


def main():
    checks = []
    for pid in ALL:
        if pid not in PROPS:
            continue
        c = PROPS[pid]
        checks.append({
            'property_id': pid,
            'quick_cmd': './check %s --tier quick' % pid,
            'thorough_cmd': './check %s --tier thorough' % pid,
            'evidence_file': 'evidence/%s.json' % pid,
            'replay_cmd_template': './check %s --replay {path}' % pid,
            'engine': 'verus-contracts',
            'level_claimed': {
                'category': 'proof',
                'text': c.get('level_text', 'Deductive proof, for all inputs / states satisfying the proved invariants / history lengths, that the real function bodies of '
                        '/repo (extracted byte-for-byte on every run) satisfy contracts written from the property statement, plus lemmas over those '
                        'contracts; no bound. ' + c['technique']),
                'design_ref': c['design'],
            },
            'level_note': 'trusted: ' + ' | '.join(a.split(':')[0] for a in c['assume']) + ' (spelled out in the evidence file and DESIGN.md section 4)',
            'technique': 'contract-based deductive verification (Verus) of the extracted real code: ' + c['technique'],
        })
    na = []
    for pid in ALL:
        if pid in PROPS:
            continue
        na.append({'property_id': pid, 'reason': NA.get(pid, PENDING)})
    m = {
        'version': 1,
        'setup_cmd': './setup.sh',
        'hooks': {
            'guard': 'none (no hooks or instrumentation were added to /repo; contracts observe state through ghost views spliced into the extracted copy)',
            'enable': 'n/a: checks read /repo/src as it is',
            'baseline_off_cmd': 'cd /repo && cargo test --workspace --no-fail-fast --offline',
            'source_commits': [],
            'add_only': True,
        },
        'engines': [{
            'name': 'verus-contracts',
            'path': 'engine/',
            'serves_properties': [p for p in ALL if p in PROPS],
            'kind_free_text': 'mechanical extractor (engine/gen.py) + contracts (contracts/*.vspec) + lemma modules (lemmas/, engine/cells.py) checked by '
                              'Verus 0.2026.09.13; Kani 0.68 discharges the assumptions Verus must make and supplies counterexamples',
        }],
        'checks': checks,
        'not_applicable': na,
        'notes': 'Exit codes: 0 held, 1 VIOLATION, 2 UNDECIDED (tool limit, lost anchor; never an alarm). Known findings: known_findings.json.',
    }
    json.dump(m, open(os.path.join(VERIF, 'MANIFEST.json'), 'w'), indent=1)
    print('MANIFEST.json: %d checks, %d not_applicable' % (len(checks), len(na)))


if __name__ == '__main__':
    main()
