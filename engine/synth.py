"""Behavioural denotation of a layout function.

When the textual derivation rules cannot translate a `map_keycode` body (early `return` inside a `match` arm, closures,
...) the denotation is instead *synthesised from the real code's behaviour*: the replayer dumps the function's complete
table (124 keys x 512 modifier sets x 2 modes), and a small decision tree per key over the five facts (falling back to the
raw flags) is emitted as the `spec_map` body. It is an untrusted hint: Verus still has to prove that the real exec body
equals it for all inputs, and if it cannot, the function is left opaque as before.
"""

PREDICATES = [
    # (name, expression over {m} = modifiers parameter and {h} = mode parameter, evaluator over (bits, mode))
    ('mapctrl', '({h} == crate::HandleControl::MapLettersToUnicode && ({m}.lctrl || {m}.rctrl))', lambda b, h: h == 1 and (b['lctrl'] or b['rctrl'])),
    ('altgr', '({m}.ralt || ({m}.lalt && ({m}.lctrl || {m}.rctrl)))', lambda b, h: b['ralt'] or (b['lalt'] and (b['lctrl'] or b['rctrl']))),
    ('caps', '(({m}.lshift || {m}.rshift) != {m}.capslock)', lambda b, h: (b['lshift'] or b['rshift']) != b['capslock']),
    ('shift', '({m}.lshift || {m}.rshift)', lambda b, h: b['lshift'] or b['rshift']),
    ('numlock', '{m}.numlock', lambda b, h: b['numlock']),
    ('capslock', '{m}.capslock', lambda b, h: b['capslock']),
    ('ctrl', '({m}.lctrl || {m}.rctrl)', lambda b, h: b['lctrl'] or b['rctrl']),
    ('map', '({h} == crate::HandleControl::MapLettersToUnicode)', lambda b, h: h == 1),
    ('alt', '({m}.lalt || {m}.ralt)', lambda b, h: b['lalt'] or b['ralt']),
    ('lshift', '{m}.lshift', lambda b, h: b['lshift']),
    ('rshift', '{m}.rshift', lambda b, h: b['rshift']),
    ('lctrl', '{m}.lctrl', lambda b, h: b['lctrl']),
    ('rctrl', '{m}.rctrl', lambda b, h: b['rctrl']),
    ('lalt', '{m}.lalt', lambda b, h: b['lalt']),
    ('ralt', '{m}.ralt', lambda b, h: b['ralt']),
    ('rctrl2', '{m}.rctrl2', lambda b, h: b['rctrl2']),
]
FLAGS = ['lshift', 'rshift', 'lctrl', 'rctrl', 'numlock', 'capslock', 'lalt', 'ralt', 'rctrl2']   # bit order of cellcheck::all_mods


def points():
    pts = []
    for h in (0, 1):
        for i in range(512):
            pts.append(({f: bool(i >> k & 1) for k, f in enumerate(FLAGS)}, h))
    return pts


PTS = points()
PRED_VALUES = [[bool(ev(b, h)) for (b, h) in PTS] for (_, _, ev) in PREDICATES]


def out_expr(v):
    if v.startswith('U+'):
        return "crate::DecodedKey::Unicode('\\u{%X}')" % int(v[2:], 16)
    if v.startswith('Raw:'):
        return 'crate::DecodedKey::RawKey(crate::KeyCode::%s)' % v[4:]
    raise ValueError(v)


def tree(idx, outs, m, h, depth=0, leaf=None, preds=None):
    leaf = leaf or out_expr
    vals = set(outs[i] for i in idx)
    if len(vals) == 1:
        return leaf(next(iter(vals))), 1
    best = None
    for p, pv in enumerate(PRED_VALUES):
        if preds is not None and PREDICATES[p][0] not in preds:
            continue
        t = [i for i in idx if pv[i]]
        f = [i for i in idx if not pv[i]]
        if not t or not f:
            continue
        score = len(set(outs[i] for i in t)) + len(set(outs[i] for i in f))
        if best is None or score < best[0]:
            best = (score, p, t, f)
            if score == 2:
                break
    if best is None or depth > 12:
        raise ValueError('not separable')
    _, p, t, f = best
    a, na = tree(t, outs, m, h, depth + 1, leaf, preds)
    b, nb = tree(f, outs, m, h, depth + 1, leaf, preds)
    cond = PREDICATES[p][1].format(m=m, h=h)
    return 'if %s { %s } else { %s }' % (cond, a, b), na + nb


def spec_body(table, keycodes, names):
    """`table`: key -> 1024 outputs (mode-major). names = (keycode, modifiers, handle_ctrl) parameter names"""
    k, m, h = names
    arms = []
    leaves = 0
    groups = {}
    for key in keycodes:
        outs = table[key]
        expr, n = tree(list(range(1024)), outs, m, h)
        leaves += n
        groups.setdefault(expr, []).append(key)
    for expr, keys in groups.items():
        arms.append('            %s => %s,' % (' | '.join('crate::KeyCode::%s' % x for x in keys), expr))
    return '{\n        match %s {\n%s\n        }\n    }' % (k, '\n'.join(arms)), leaves


def pred_body(bits):
    """`bits`: string of 512 '0'/'1' (cellcheck::all_mods order): a decision tree over the nine raw flags of `self`"""
    if len(bits) != 512 or set(bits) - set('01'):
        raise ValueError('bad predicate table')
    expr, n = tree(list(range(512)), bits, 'self', '_', leaf=lambda v: 'true' if v == '1' else 'false', preds=set(FLAGS))
    return '{ %s }' % expr
