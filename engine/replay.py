"""./check <ID> --replay <file>: re-run a recorded violation against /repo's current tree.
exit 1 = reproduces, 0 = no longer reproduces, 2 = cannot tell."""
import json
import os
import subprocess
import sys

from . import gen, native, cex

VERIF = os.path.dirname(os.path.dirname(os.path.abspath(__file__)))
REPO = os.environ.get('VERIF_REPO', '/repo')


def run(prop, path):
    try:
        rec = json.load(open(path, encoding='utf-8'))
    except Exception as e:
        print('cannot read replay file: %s' % e)
        return 2
    oid = rec.get('obligation')
    print('replay property=%s obligation=%s' % (prop, oid))
    print('  obligation: %s' % (rec.get('obligation_text') or '')[:300])
    print('  verifier said: %s' % rec.get('verifier_message'))
    nat = rec.get('native_replay')
    if nat and nat.get('cmd'):
        try:
            info = gen.generate(REPO, os.path.join(VERIF, 'contracts'))
            b = native.build(info)
        except Exception as e:
            print('  cannot build against the current tree: %s' % e)
            return 2
        cmd = nat['cmd']
        if cmd[0] == 'cellcheck':
            rc, out, err = native.run(b, cmd)
            print('  native: replayer %s\n    -> %s' % (' '.join(cmd), out or err))
            return 1 if out.startswith('FAILS') else (0 if out.startswith('HOLDS') else 2)
        if cmd[0] == 'sweep':
            rc, out, err = native.run(b, cmd, timeout=900)
            print('  native: replayer %s\n    -> %s' % (' '.join(cmd), (out or err)[-400:]))
            return 1 if 'FAILS' in out else (0 if 'HOLDS' in out else 2)
        if cmd[0] == 'kanicex':
            from . import kanicex
            return kanicex.replay(rec, b)
        sc = cex.scancode_cell(prop, oid, info, b)
        if sc:
            print('  native: replayer %s\n    expected: %s\n    observed: %s' % (' '.join(sc['native_cmd']), sc['expected'], sc['observed']))
            return 1 if sc['reproduced'] else 0
    # no concrete input: re-decide the obligation with the verifier
    p = subprocess.run([sys.executable, os.path.join(VERIF, 'check'), prop], capture_output=True, text=True)
    again = [l for l in p.stdout.split('\n') if l.startswith('VIOLATION') and ('obligation=%s' % oid) in l]
    print('  no concrete input recorded; re-verified the property: %s' % ('the obligation fails again' if again else 'the obligation is discharged now (check exit %d)' % p.returncode))
    if again:
        return 1
    return 0 if p.returncode == 0 else (1 if p.returncode == 1 and not oid else (0 if p.returncode == 1 else 2))
