import json
def run(prop, path):
    print('replay not yet implemented')
    return 2
