// C17 — AnyLayout behaves exactly as the layout it wraps.
// Over the denotations of the two ten-arm wrapper functions (derived from the real bodies, proved equal to them):
// by value and by reference, every variant returns exactly what the wrapped layout returns. The per-variant
// lemmas are generated (module verif_c17_cells) so that a new variant is covered automatically.
pub mod verif_c17 {
use vstd::prelude::*;
use crate::*;
use crate::layouts::*;

//@ LEMMA C17/reference_wrapper_equals_value_wrapper
pub proof fn lemma_c17_ref(a: &AnyLayout)
    ensures
        forall|k: KeyCode, m: Modifiers, h: HandleControl| #![trigger a.spec_map(k, &m, h)]
            (*a).spec_map(k, &m, h) == <&AnyLayout as KeyboardLayout>::spec_map(&a, k, &m, h),
{
}

//@ LEMMA C17/client_switching_variant_switches_layout
/// real code: an EventDecoder over AnyLayout, switched to another variant, decodes the next key with that layout
pub fn c17_client(d: &mut EventDecoder<AnyLayout>, k: KeyCode) -> (r: Option<DecodedKey>)
    requires
        !is_modifier_key(k),
    ensures
        r == Some(Azerty.spec_map(k, &old(d).mods(), old(d).mode())),
{
    d.change_layout(AnyLayout::Azerty(Azerty));
    d.process_keyevent(KeyEvent::new(k, KeyState::Down))
}

} // mod verif_c17
