// C07 — scancode decoders resynchronise after every event or error.
// Stated over the prefix automata (setN_next / setN_out) that the real advance_state functions are proved to
// implement: `ctx' == next(ctx, b)` unconditionally, `r == out(ctx, b)` wherever the statements fix the output and
// `r == Ok(None)  <=>  out(ctx, b) == Ok(None)` everywhere.
pub mod verif_c07 {
use vstd::prelude::*;
use crate::*;

pub open spec fn none() -> ScOut {
    Ok::<Option<KeyEvent>, Error>(None)
}

pub open spec fn rank2(c: PrefixCtx) -> nat {
    match c {
        PrefixCtx::Start => 2,
        PrefixCtx::Extended => 1,
        PrefixCtx::Extended2 => 1,
        _ => 0,
    }
}

pub open spec fn rank1(c: PrefixCtx) -> nat {
    match c {
        PrefixCtx::Start => 1,
        _ => 0,
    }
}

//@ LEMMA C07/set2_step
/// Set 2: an event or error puts the decoder back in its initial condition; 'no event yet' strictly lowers a rank
/// that starts at 2, so it is never returned for more than two consecutive bytes and a prefix reaches at most two bytes ahead
pub proof fn c07_set2_step()
    ensures
        forall|c: PrefixCtx, b: u8| #![trigger set2_out(c, b)]
            (set2_out(c, b) != none() ==> set2_next(c, b) == PrefixCtx::Start)
            && (set2_out(c, b) == none() ==> rank2(set2_next(c, b)) < rank2(c)),
{
}

//@ LEMMA C07/set1_step
pub proof fn c07_set1_step()
    ensures
        forall|c: PrefixCtx, b: u8| #![trigger set1_out(c, b)]
            set1_wf(c) ==> set1_wf(set1_next(c, b))
            && (set1_out(c, b) != none() ==> set1_next(c, b) == PrefixCtx::Start)
            && (set1_out(c, b) == none() ==> rank1(set1_next(c, b)) < rank1(c)),
{
}

//@ LEMMA C07/set2_at_most_two_pending
pub proof fn c07_set2_three(c: PrefixCtx, a: u8, b: u8, d: u8)
    ensures
        !(set2_out(c, a) == none() && set2_out(set2_next(c, a), b) == none() && set2_out(set2_next(set2_next(c, a), b), d) == none()),
        // after two bytes at most, nothing that came before matters
        set2_out(c, a) != none() ==> set2_next(c, a) == PrefixCtx::Start,
        set2_out(set2_next(c, a), b) != none() ==> set2_next(set2_next(c, a), b) == PrefixCtx::Start,
        set2_next(set2_next(set2_next(c, a), b), d) == PrefixCtx::Start || set2_out(set2_next(set2_next(c, a), b), d) == none(),
{
    c07_set2_step();
}

//@ LEMMA C07/set1_at_most_one_pending
pub proof fn c07_set1_two(c: PrefixCtx, a: u8, b: u8)
    requires
        set1_wf(c),
    ensures
        !(set1_out(c, a) == none() && set1_out(set1_next(c, a), b) == none()),
        set1_out(c, a) != none() ==> set1_next(c, a) == PrefixCtx::Start,
        set1_out(c, a) == none() ==> set1_next(set1_next(c, a), b) == PrefixCtx::Start,
{
    c07_set1_step();
}

// ---- streams of any length (generic in the decoder through the ghost trait members)
pub open spec fn run_ctx<S: ScancodeSet>(c: PrefixCtx, s: Seq<u8>) -> PrefixCtx
    decreases s.len(),
{
    if s.len() == 0 { c } else { S::next_ctx(run_ctx::<S>(c, s.drop_last()), s.last()) }
}

pub open spec fn run_outs<S: ScancodeSet>(c: PrefixCtx, s: Seq<u8>) -> Seq<ScOut>
    decreases s.len(),
{
    if s.len() == 0 { Seq::empty() } else { run_outs::<S>(c, s.drop_last()).push(S::out(run_ctx::<S>(c, s.drop_last()), s.last())) }
}

//@ LEMMA C07/run_concat
pub proof fn lemma_run_concat<S: ScancodeSet>(c: PrefixCtx, h: Seq<u8>, s: Seq<u8>)
    ensures
        run_ctx::<S>(c, h + s) == run_ctx::<S>(run_ctx::<S>(c, h), s),
        run_outs::<S>(c, h + s) == run_outs::<S>(c, h) + run_outs::<S>(run_ctx::<S>(c, h), s),
    decreases s.len(),
{
    if s.len() == 0 {
        assert(h + s =~= h);
        assert(run_outs::<S>(c, h) + Seq::<ScOut>::empty() =~= run_outs::<S>(c, h));
    } else {
        lemma_run_concat::<S>(c, h, s.drop_last());
        assert((h + s).drop_last() =~= h + s.drop_last());
        assert((h + s).last() == s.last());
        assert(run_outs::<S>(c, h) + run_outs::<S>(run_ctx::<S>(c, h), s) =~= (run_outs::<S>(c, h) + run_outs::<S>(
            run_ctx::<S>(c, h),
            s.drop_last(),
        )).push(S::out(run_ctx::<S>(run_ctx::<S>(c, h), s.drop_last()), s.last())));
    }
}

//@ LEMMA C07/set2_resync
/// if the last output of any non-empty history (arbitrary garbage included) is an event or an error, then whatever
/// follows decodes exactly as it would on a fresh decoder
pub proof fn lemma_c07_resync2(h: Seq<u8>, s: Seq<u8>)
    requires
        h.len() > 0,
        run_outs::<ScancodeSet2>(PrefixCtx::Start, h).last() != none(),
    ensures
        run_ctx::<ScancodeSet2>(PrefixCtx::Start, h) == PrefixCtx::Start,
        run_outs::<ScancodeSet2>(PrefixCtx::Start, h + s) == run_outs::<ScancodeSet2>(PrefixCtx::Start, h) + run_outs::<ScancodeSet2>(PrefixCtx::Start, s),
{
    c07_set2_step();
    lemma_run_concat::<ScancodeSet2>(PrefixCtx::Start, h, s);
    assert(run_ctx::<ScancodeSet2>(PrefixCtx::Start, h) == set2_next(run_ctx::<ScancodeSet2>(PrefixCtx::Start, h.drop_last()), h.last()));
}

//@ LEMMA C07/set1_resync
pub proof fn lemma_c07_resync1(h: Seq<u8>, s: Seq<u8>)
    requires
        h.len() > 0,
        run_outs::<ScancodeSet1>(PrefixCtx::Start, h).last() != none(),
    ensures
        run_ctx::<ScancodeSet1>(PrefixCtx::Start, h) == PrefixCtx::Start,
        run_outs::<ScancodeSet1>(PrefixCtx::Start, h + s) == run_outs::<ScancodeSet1>(PrefixCtx::Start, h) + run_outs::<ScancodeSet1>(PrefixCtx::Start, s),
{
    c07_set1_step();
    lemma_set1_reach(h.drop_last());
    lemma_run_concat::<ScancodeSet1>(PrefixCtx::Start, h, s);
    assert(run_ctx::<ScancodeSet1>(PrefixCtx::Start, h) == set1_next(run_ctx::<ScancodeSet1>(PrefixCtx::Start, h.drop_last()), h.last()));
}

/// every state Set 1 reaches from Start satisfies its invariant
pub proof fn lemma_set1_reach(h: Seq<u8>)
    ensures
        set1_wf(run_ctx::<ScancodeSet1>(PrefixCtx::Start, h)),
    decreases h.len(),
{
    c07_set1_step();
    if h.len() > 0 {
        lemma_set1_reach(h.drop_last());
        assert(set1_out(run_ctx::<ScancodeSet1>(PrefixCtx::Start, h.drop_last()), h.last()) == set1_out(run_ctx::<ScancodeSet1>(PrefixCtx::Start, h.drop_last()), h.last()));
    }
}

//@ LEMMA C07/client_set2_real_decoder_resyncs
/// real code: after the real Set 2 decoder returns anything but Ok(None) it is in its initial condition
pub fn c07_client2(d: &mut ScancodeSet2, b: u8) -> (r: Result<Option<KeyEvent>, Error>)
    ensures
        r != none() ==> final(d).ctx() == PrefixCtx::Start,
        r == none() ==> rank2(final(d).ctx()) < rank2(old(d).ctx()),
{
    proof {
        c07_set2_step();
    }
    let r = d.advance_state(b);
    assert(set2_out(old(d).ctx(), b) == set2_out(old(d).ctx(), b));
    r
}

//@ LEMMA C07/client_set1_real_decoder_resyncs
pub fn c07_client1(d: &mut ScancodeSet1, b: u8) -> (r: Result<Option<KeyEvent>, Error>)
    requires
        old(d).wf(),
    ensures
        final(d).wf(),
        r != none() ==> final(d).ctx() == PrefixCtx::Start,
        r == none() ==> rank1(final(d).ctx()) < rank1(old(d).ctx()),
{
    proof {
        c07_set1_step();
    }
    let r = d.advance_state(b);
    assert(set1_out(old(d).ctx(), b) == set1_out(old(d).ctx(), b));
    r
}

} // mod verif_c07
