// C11 (second half) — the public Modifiers predicates compute exactly the five groupings.
// Stated on the derived copies of the predicates; Kani proves the compiled predicates equal these copies for all
// 512 Modifiers values (harness predicates_equal_copies), which closes the loop on the real code.
pub mod verif_c11 {
use vstd::prelude::*;
use crate::*;

//@ LEMMA C11/predicate_groupings
pub proof fn lemma_c11_predicates(m: Modifiers)
    ensures
        m.is_shifted() == (m.lshift || m.rshift),
        m.is_ctrl() == (m.lctrl || m.rctrl),
        m.is_alt() == (m.lalt || m.ralt),
        m.is_altgr() == (m.ralt || (m.lalt && (m.lctrl || m.rctrl))),
        m.is_caps() == ((m.lshift || m.rshift) != m.capslock),
{
}

//@ LEMMA C11/left_right_interchangeable
/// left and right variants are interchangeable, holding both equals holding one, a lone left Alt or the hidden flag changes no fact
pub proof fn lemma_c11_facts(m: Modifiers)
    ensures
        crate::verif_ldefs::same_facts(Modifiers { lshift: true, rshift: false, ..m }, Modifiers { lshift: false, rshift: true, ..m }, true),
        crate::verif_ldefs::same_facts(Modifiers { lshift: true, rshift: true, ..m }, Modifiers { lshift: false, rshift: true, ..m }, true),
        crate::verif_ldefs::same_facts(Modifiers { lctrl: true, rctrl: false, ..m }, Modifiers { lctrl: false, rctrl: true, ..m }, true),
        crate::verif_ldefs::same_facts(Modifiers { lctrl: true, rctrl: true, ..m }, Modifiers { lctrl: true, rctrl: false, ..m }, true),
        !m.lctrl && !m.rctrl ==> crate::verif_ldefs::same_facts(Modifiers { lalt: true, ..m }, Modifiers { lalt: false, ..m }, true),
        crate::verif_ldefs::same_facts(Modifiers { rctrl2: true, ..m }, Modifiers { rctrl2: false, ..m }, true),
{
}

} // mod verif_c11
