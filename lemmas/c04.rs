// C04 — reported modifier state is exactly the history of modifier key events.
// The step function `mods_step` is the postcondition of the real `process_keyevent`; these lemmas lift it to
// histories of any length by induction.
pub mod verif_c04 {
use vstd::prelude::*;
use crate::*;

pub open spec fn mods_after(h: Seq<KeyEvent>) -> Modifiers
    decreases h.len(),
{
    if h.len() == 0 { initial_mods() } else { mods_step(mods_after(h.drop_last()), h.last()) }
}

/// most recent Down/Up event of key k was a Down (one-shot events do not count)
pub open spec fn last_down(h: Seq<KeyEvent>, k: KeyCode) -> bool
    decreases h.len(),
{
    if h.len() == 0 {
        false
    } else if h.last().code == k && h.last().state != KeyState::SingleShot {
        h.last().state == KeyState::Down
    } else {
        last_down(h.drop_last(), k)
    }
}

pub open spec fn caps_presses(h: Seq<KeyEvent>) -> nat
    decreases h.len(),
{
    if h.len() == 0 {
        0
    } else {
        caps_presses(h.drop_last()) + (if h.last().code == KeyCode::CapsLock && h.last().state == KeyState::Down { 1nat } else { 0nat })
    }
}

/// NumLock presses that count: those made while the hidden Pause-Ctrl is not held
pub open spec fn num_presses(h: Seq<KeyEvent>) -> nat
    decreases h.len(),
{
    if h.len() == 0 {
        0
    } else {
        num_presses(h.drop_last()) + (if h.last().code == KeyCode::NumpadLock && h.last().state == KeyState::Down
            && !last_down(h.drop_last(), KeyCode::RControl2) { 1nat } else { 0nat })
    }
}

//@ LEMMA C04/history_induction
pub proof fn lemma_c04_history(h: Seq<KeyEvent>)
    ensures
        mods_after(h).lshift == last_down(h, KeyCode::LShift),
        mods_after(h).rshift == last_down(h, KeyCode::RShift),
        mods_after(h).lctrl == last_down(h, KeyCode::LControl),
        mods_after(h).rctrl == last_down(h, KeyCode::RControl),
        mods_after(h).lalt == last_down(h, KeyCode::LAlt),
        mods_after(h).ralt == last_down(h, KeyCode::RAltGr),
        mods_after(h).rctrl2 == last_down(h, KeyCode::RControl2),
        mods_after(h).capslock == (caps_presses(h) % 2 == 1),
        mods_after(h).numlock == (num_presses(h) % 2 == 0),
    decreases h.len(),
{
    if h.len() > 0 {
        lemma_c04_history(h.drop_last());
    }
}

//@ LEMMA C04/nothing_else_changes
/// no other key, no release of a lock key and no one-shot event changes any modifier
pub proof fn lemma_c04_frame(m: Modifiers, e: KeyEvent)
    ensures
        e.state == KeyState::SingleShot ==> mods_step(m, e) == m,
        !is_modifier_key(e.code) ==> mods_step(m, e) == m,
        (e.code == KeyCode::CapsLock || e.code == KeyCode::NumpadLock) && e.state == KeyState::Up ==> mods_step(m, e) == m,
{
}

//@ LEMMA C04/client_decoder_tracks_history
/// a real EventDecoder fed one more event moves from mods_after(h) to mods_after(h.push(ev))
pub fn c04_client<L: KeyboardLayout>(d: &mut EventDecoder<L>, ev: KeyEvent, Ghost(h): Ghost<Seq<KeyEvent>>)
    requires
        old(d).mods() == mods_after(h),
    ensures
        final(d).mods() == mods_after(h.push(ev)),
{
    let _ = d.process_keyevent(ev);
    proof {
        assert(h.push(ev).drop_last() =~= h);
    }
}

//@ LEMMA C04/client_fresh_decoder
pub fn c04_client_new<L: KeyboardLayout>(l: L, hc: HandleControl) -> (d: EventDecoder<L>)
    ensures
        d.mods() == mods_after(Seq::<KeyEvent>::empty()),
        d.mods().numlock,
{
    EventDecoder::new(l, hc)
}

//@ LEMMA C04/client_keyboard_reports_history
pub fn c04_client_keyboard<L: KeyboardLayout, S: ScancodeSet>(kb: &mut Keyboard<L, S>, ev: KeyEvent, Ghost(h): Ghost<Seq<KeyEvent>>) -> (m: Modifiers)
    requires
        old(kb).evd().mods() == mods_after(h),
    ensures
        m == mods_after(h.push(ev)),
{
    let _ = kb.process_keyevent(ev);
    proof {
        assert(h.push(ev).drop_last() =~= h);
    }
    let r = kb.get_modifiers();
    Modifiers {
        lshift: r.lshift,
        rshift: r.rshift,
        lctrl: r.lctrl,
        rctrl: r.rctrl,
        numlock: r.numlock,
        capslock: r.capslock,
        lalt: r.lalt,
        ralt: r.ralt,
        rctrl2: r.rctrl2,
    }
}

} // mod verif_c04
