// C01 — Set 2 byte streams decode to exactly the standard key events.
// Pieces: (a) the three derived table denotations equal the reference table cell by cell (module verif_c01_cells,
// generated from spec/scancodes.json); (b) the real advance_state implements the prefix automaton set2_next/set2_out
// (its postcondition, contracts/20_scancodes.vspec); (c) the lemmas below: every well-formed sequence, from the
// initial condition, yields exactly the reference key with the right state, and ends in the initial condition.
pub mod verif_c01 {
use vstd::prelude::*;
use crate::*;
use crate::verif_c01_cells::*;

pub open spec fn none() -> ScOut {
    Ok::<Option<KeyEvent>, Error>(None)
}

pub open spec fn is_prefix2(c: u8) -> bool {
    c == 0xE0 || c == 0xE1 || c == 0xF0
}

//@ LEMMA C01/sequences
/// all 2 x 3 forms `[E0|E1]? [F0]? code` of a well-formed sequence
pub proof fn lemma_c01_sequences(c: u8)
    ensures
        // prefix bytes alone produce no event
        set2_out(PrefixCtx::Start, 0xE0) == none() && set2_next(PrefixCtx::Start, 0xE0) == PrefixCtx::Extended,
        set2_out(PrefixCtx::Start, 0xE1) == none() && set2_next(PrefixCtx::Start, 0xE1) == PrefixCtx::Extended2,
        set2_out(PrefixCtx::Start, 0xF0) == none() && set2_next(PrefixCtx::Start, 0xF0) == PrefixCtx::Release,
        set2_out(PrefixCtx::Extended, 0xF0) == none() && set2_next(PrefixCtx::Extended, 0xF0) == PrefixCtx::ExtendedRelease,
        set2_out(PrefixCtx::Extended2, 0xF0) == none() && set2_next(PrefixCtx::Extended2, 0xF0) == PrefixCtx::Extended2Release,
        // make codes
        !is_prefix2(c) && c != 0x00 && c != 0xAA && !gap_set2_plain(c) ==> set2_out(PrefixCtx::Start, c) == ev(ref_set2_plain(c), KeyState::Down),
        c != 0xF0 && !gap_set2_e0(c) ==> set2_out(PrefixCtx::Extended, c) == ev(ref_set2_e0(c), KeyState::Down),
        c != 0xF0 && !gap_set2_e1(c) ==> set2_out(PrefixCtx::Extended2, c) == ev(ref_set2_e1(c), KeyState::Down),
        // break codes
        c != 0x00 && c != 0xAA && !gap_set2_plain(c) ==> set2_out(PrefixCtx::Release, c) == ev(ref_set2_plain(c), KeyState::Up),
        !gap_set2_e0(c) ==> set2_out(PrefixCtx::ExtendedRelease, c) == ev(ref_set2_e0(c), KeyState::Up),
        !gap_set2_e1(c) ==> set2_out(PrefixCtx::Extended2Release, c) == ev(ref_set2_e1(c), KeyState::Up),
        // status bytes
        !gap_set2_plain(0x00) ==> set2_out(PrefixCtx::Start, 0x00) == Ok::<Option<KeyEvent>, Error>(Some(KeyEvent { code: KeyCode::TooManyKeys, state: KeyState::SingleShot })),
        !gap_set2_plain(0xAA) ==> set2_out(PrefixCtx::Start, 0xAA) == Ok::<Option<KeyEvent>, Error>(Some(KeyEvent { code: KeyCode::PowerOnTestOk, state: KeyState::SingleShot })),
        // every completed sequence (and every error) ends in the initial condition
        !is_prefix2(c) ==> set2_next(PrefixCtx::Start, c) == PrefixCtx::Start,
        c != 0xF0 ==> set2_next(PrefixCtx::Extended, c) == PrefixCtx::Start && set2_next(PrefixCtx::Extended2, c) == PrefixCtx::Start,
        set2_next(PrefixCtx::Release, c) == PrefixCtx::Start && set2_next(PrefixCtx::ExtendedRelease, c) == PrefixCtx::Start
            && set2_next(PrefixCtx::Extended2Release, c) == PrefixCtx::Start,
        // everything the statement fixes is marked fixed (all but F0 00 / F0 AA)
        set2_fixed(PrefixCtx::Start, c) && set2_fixed(PrefixCtx::Extended, c) && set2_fixed(PrefixCtx::Extended2, c)
            && set2_fixed(PrefixCtx::ExtendedRelease, c) && set2_fixed(PrefixCtx::Extended2Release, c)
            && (c != 0x00 && c != 0xAA ==> set2_fixed(PrefixCtx::Release, c)),
{
    table_set2_plain();
    table_set2_e0();
    table_set2_e1();
}

//@ LEMMA C01/undefined_codes_are_unknown
pub proof fn lemma_c01_unknown(c: u8)
    ensures
        ref_set2_plain(c).is_err() && !is_prefix2(c) && !gap_set2_plain(c) ==> set2_out(PrefixCtx::Start, c) == Err::<Option<KeyEvent>, Error>(Error::UnknownKeyCode)
            && set2_out(PrefixCtx::Release, c) == Err::<Option<KeyEvent>, Error>(Error::UnknownKeyCode),
        ref_set2_e0(c).is_err() && c != 0xF0 && !gap_set2_e0(c) ==> set2_out(PrefixCtx::Extended, c) == Err::<Option<KeyEvent>, Error>(Error::UnknownKeyCode),
        ref_set2_e0(c).is_err() && !gap_set2_e0(c) ==> set2_out(PrefixCtx::ExtendedRelease, c) == Err::<Option<KeyEvent>, Error>(Error::UnknownKeyCode),
        ref_set2_e1(c).is_err() && c != 0xF0 && !gap_set2_e1(c) ==> set2_out(PrefixCtx::Extended2, c) == Err::<Option<KeyEvent>, Error>(Error::UnknownKeyCode),
        ref_set2_e1(c).is_err() && !gap_set2_e1(c) ==> set2_out(PrefixCtx::Extended2Release, c) == Err::<Option<KeyEvent>, Error>(Error::UnknownKeyCode),
{
    table_set2_plain();
    table_set2_e0();
    table_set2_e1();
    assert(ref_set2_plain(0x00) is Ok && ref_set2_plain(0xAA) is Ok);
}

//@ LEMMA C01/client_longest_sequence
/// real code: E0 F0 c on the real decoder, from the initial condition
pub fn c01_client_e0_break(d: &mut ScancodeSet2, c: u8) -> (r: (ScOut, ScOut, ScOut))
    requires
        old(d).ctx() == PrefixCtx::Start,
    ensures
        r.0 == none() && r.1 == none(),
        !gap_set2_e0(c) ==> r.2 == ev(ref_set2_e0(c), KeyState::Up),
        final(d).ctx() == PrefixCtx::Start,
{
    proof {
        lemma_c01_sequences(c);
    }
    let a = d.advance_state(0xE0);
    let b = d.advance_state(0xF0);
    let e = d.advance_state(c);
    (a, b, e)
}

//@ LEMMA C01/client_after_any_history
/// real code: whatever state the decoder is in, after it reports an event or error a plain make code decodes per the table
pub fn c01_client_any_state(d: &mut ScancodeSet2, x: u8, c: u8) -> (r: (ScOut, ScOut))
    requires
        !is_prefix2(c),
        c != 0x00 && c != 0xAA,
    ensures
        r.0 != none() && !gap_set2_plain(c) ==> r.1 == ev(ref_set2_plain(c), KeyState::Down),
{
    proof {
        lemma_c01_sequences(c);
        crate::verif_c07::c07_set2_step();
    }
    let a = d.advance_state(x);
    assert(set2_out(old(d).ctx(), x) == set2_out(old(d).ctx(), x));
    let b = d.advance_state(c);
    (a, b)
}

//@ LEMMA C01/client_keyboard_add_byte
pub fn c01_client_keyboard<L: KeyboardLayout>(kb: &mut Keyboard<L, ScancodeSet2>, c: u8) -> (r: (ScOut, ScOut))
    requires
        old(kb).wf(),
        old(kb).sc().ctx() == PrefixCtx::Start,
        !is_prefix2(c),
        c != 0x00 && c != 0xAA,
    ensures
        r.0 == none(),
        !gap_set2_plain(c) ==> r.1 == ev(ref_set2_plain(c), KeyState::Up),
{
    proof {
        lemma_c01_sequences(c);
    }
    let a = kb.add_byte(0xF0);
    let b = kb.add_byte(c);
    (a, b)
}

//@ LEMMA C01/client_scancode_to_decoded_key
/// real code, end to end: a Set 2 make code fed to a Keyboard yields the reference key's press, and processing that
/// event yields exactly what the installed layout's denotation gives for that key under the current modifiers and mode
pub fn c01_client_end_to_end<L: KeyboardLayout>(kb: &mut Keyboard<L, ScancodeSet2>, c: u8) -> (r: Option<DecodedKey>)
    requires
        old(kb).wf(),
        old(kb).sc().ctx() == PrefixCtx::Start,
        !is_prefix2(c),
        c != 0x00 && c != 0xAA,
        !gap_set2_plain(c),
        ref_set2_plain(c).is_ok(),
        !is_modifier_key(ref_set2_plain(c).unwrap()),
    ensures
        r == Some(old(kb).evd().lay().spec_map(ref_set2_plain(c).unwrap(), &old(kb).evd().mods(), old(kb).evd().mode())),
        final(kb).evd().mods() == old(kb).evd().mods(),
{
    proof {
        lemma_c01_sequences(c);
    }
    match kb.add_byte(c) {
        Ok(Some(e)) => kb.process_keyevent(e),
        _ => None,
    }
}

} // mod verif_c01
