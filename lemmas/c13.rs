// C13 — Set 1 and Set 2 decode consistently under the i8042 translation.
// Tables: generated module verif_c13_cells (forward / backward lemmas against spec/i8042_xlat.json).
// Events: the lemma below lifts the table correspondence to the make and break sequences through the two
// automaton specifications that the real advance_state functions are proved to implement.
pub mod verif_c13 {
use vstd::prelude::*;
use crate::*;
use crate::verif_c13_cells::*;

pub open spec fn ctx2(ctx: u8, brk: bool) -> PrefixCtx {
    if ctx == 0 {
        if brk { PrefixCtx::Release } else { PrefixCtx::Start }
    } else if ctx == 1 {
        if brk { PrefixCtx::ExtendedRelease } else { PrefixCtx::Extended }
    } else {
        if brk { PrefixCtx::Extended2Release } else { PrefixCtx::Extended2 }
    }
}

pub open spec fn ctx1(ctx: u8) -> PrefixCtx {
    if ctx == 0 { PrefixCtx::Start } else if ctx == 1 { PrefixCtx::Extended } else { PrefixCtx::Extended2 }
}

//@ LEMMA C13/translated_sequences_decode_identically
/// for every key Set 2 expresses: `[prefix] [F0] c2` in Set 2 and `[prefix] xlat(c2) (| 0x80 for a release)` in Set 1
/// yield the identical key event
pub proof fn lemma_c13_events(ctx: u8, c2: u8, brk: bool)
    requires
        ctx < 3,
        xlat_dom(c2),
        !gap_fwd(ctx, c2),
        t_set2(ctx, c2).is_ok(),
    ensures
        xlat(c2) < 0x80,
        set2_out(ctx2(ctx, brk), c2) == set1_out(ctx1(ctx), if brk { (xlat(c2) | 0x80) as u8 } else { xlat(c2) }),
        set2_out(ctx2(ctx, brk), c2).is_ok(),
        // the prefixes are carried over unchanged and lead to corresponding contexts
        set2_next(PrefixCtx::Start, 0xE0) == ctx2(1, false) && set1_next(PrefixCtx::Start, 0xE0) == ctx1(1),
        set2_next(PrefixCtx::Start, 0xE1) == ctx2(2, false) && set1_next(PrefixCtx::Start, 0xE1) == ctx1(2),
        set2_next(ctx2(ctx, false), 0xF0) == ctx2(ctx, true),
{
    forward();
    let x = xlat(c2);
    assert(x < 0x80);
    assert(x < 0x80 ==> (x | 0x80) >= 0x80 && ((x | 0x80) - 0x80) as u8 == x) by (bit_vector);
    assert(x < 0x80 ==> ((x | 0x80 == 0xE0) <==> x == 0x60) && ((x | 0x80 == 0xE1) <==> x == 0x61)) by (bit_vector);
    assert(t_set2(ctx, c2) matches Ok(k) && t_set1(ctx, x) == Ok::<KeyCode, Error>(k));
}

//@ LEMMA C13/client_both_decoders_agree
/// real code: the real Set 2 decoder fed `E0 F0 c2` and the real Set 1 decoder fed `E0 xlat(c2)|0x80` report the same event
pub fn c13_client(d2: &mut ScancodeSet2, d1: &mut ScancodeSet1, c2: u8, x: u8) -> (r: (ScOut, ScOut))
    requires
        old(d2).ctx() == PrefixCtx::Start,
        old(d1).ctx() == PrefixCtx::Start,
        xlat_dom(c2),
        !gap_fwd(1, c2),
        t_set2(1, c2).is_ok(),
        x == xlat(c2),
    ensures
        r.0 == r.1,
        r.0.is_ok(),
{
    proof {
        lemma_c13_events(1, c2, true);
    }
    let _ = d2.advance_state(0xE0);
    let _ = d2.advance_state(0xF0);
    let a = d2.advance_state(c2);
    let _ = d1.advance_state(0xE0);
    let b = d1.advance_state(x | 0x80);
    (a, b)
}

//@ LEMMA C13/client_end_to_end_same_decoded_key
/// real code, end to end: two Keyboards with the same layout, modifiers and mode - one fed the Set 2 code, the other its
/// i8042 translation - produce the same decoded key and stay in step
pub fn c13_client_end_to_end<L: KeyboardLayout>(k2: &mut Keyboard<L, ScancodeSet2>, k1: &mut Keyboard<L, ScancodeSet1>, c2: u8, x: u8) -> (r: (Option<DecodedKey>, Option<DecodedKey>))
    requires
        old(k2).wf(),
        old(k1).wf(),
        old(k2).sc().ctx() == PrefixCtx::Start,
        old(k1).sc().ctx() == PrefixCtx::Start,
        old(k2).evd().mods() == old(k1).evd().mods(),
        old(k2).evd().mode() == old(k1).evd().mode(),
        old(k2).evd().lay() == old(k1).evd().lay(),
        xlat_dom(c2),
        !gap_fwd(0, c2),
        t_set2(0, c2).is_ok(),
        x == xlat(c2),
    ensures
        r.0 == r.1,
        final(k2).evd().mods() == final(k1).evd().mods(),
        final(k2).sc().ctx() == PrefixCtx::Start && final(k1).sc().ctx() == PrefixCtx::Start,
{
    proof {
        lemma_c13_events(0, c2, false);
    }
    let e2 = k2.add_byte(c2);
    let e1 = k1.add_byte(x);
    match (e2, e1) {
        (Ok(Some(a)), Ok(Some(b))) => (k2.process_keyevent(a), k1.process_keyevent(b)),
        _ => (None, None),
    }
}

} // mod verif_c13
