// C14 — one decoded key per press, none per release, via the current layout and mode.
// `decode_out` is the postcondition of the real process_keyevent, generic in the layout.
pub mod verif_c14 {
use vstd::prelude::*;
use crate::*;

//@ LEMMA C14/shape
/// exactly one decoded key per press, none per release or one-shot; modifier presses yield themselves
pub proof fn lemma_c14_shape<L: KeyboardLayout>(l: L, m: Modifiers, h: HandleControl, e: KeyEvent)
    ensures
        e.state == KeyState::Down <==> decode_out(l, m, h, e).is_some(),
        e.state == KeyState::Down && is_modifier_key(e.code) && !(e.code == KeyCode::NumpadLock && m.rctrl2) ==> decode_out(l, m, h, e)
            == Some(DecodedKey::RawKey(e.code)),
        e.state == KeyState::Down && e.code == KeyCode::NumpadLock && m.rctrl2 ==> decode_out(l, m, h, e) == Some(
            DecodedKey::RawKey(KeyCode::PauseBreak),
        ),
        e.state == KeyState::Down && !is_modifier_key(e.code) ==> decode_out(l, m, h, e) == Some(l.spec_map(e.code, &m, h)),
        // such a key does not change the modifiers, so "current modifier state" is unambiguous
        !is_modifier_key(e.code) ==> mods_step(m, e) == m,
{
}

//@ LEMMA C14/client_mode_change_takes_effect
/// real code: a change of Ctrl handling takes effect on the very next key
pub fn c14_client_mode<L: KeyboardLayout>(d: &mut EventDecoder<L>, k: KeyCode, h: HandleControl) -> (r: Option<DecodedKey>)
    requires
        !is_modifier_key(k),
    ensures
        r == Some(old(d).lay().spec_map(k, &old(d).mods(), h)),
        final(d).mods() == old(d).mods(),
        final(d).mode() == h,
{
    d.set_ctrl_handling(h);
    let g = d.get_ctrl_handling();
    assert(g == h);
    d.process_keyevent(KeyEvent::new(k, KeyState::Down))
}

//@ LEMMA C14/client_layout_change_takes_effect
pub fn c14_client_layout<L: KeyboardLayout>(d: &mut EventDecoder<L>, k: KeyCode, l2: L) -> (r: Option<DecodedKey>)
    requires
        !is_modifier_key(k),
    ensures
        r == Some(l2.spec_map(k, &old(d).mods(), old(d).mode())),
{
    d.change_layout(l2);
    d.process_keyevent(KeyEvent::new(k, KeyState::Down))
}

//@ LEMMA C14/client_two_presses
/// two presses with a mode change in between: the first uses the old mode, the second the new one
pub fn c14_client_two<L: KeyboardLayout>(d: &mut EventDecoder<L>, k1: KeyCode, k2: KeyCode, h: HandleControl) -> (r: (Option<DecodedKey>, Option<DecodedKey>))
    requires
        !is_modifier_key(k1),
        !is_modifier_key(k2),
    ensures
        r.0 == Some(old(d).lay().spec_map(k1, &old(d).mods(), old(d).mode())),
        r.1 == Some(old(d).lay().spec_map(k2, &old(d).mods(), h)),
{
    let a = d.process_keyevent(KeyEvent::new(k1, KeyState::Down));
    d.set_ctrl_handling(h);
    let b = d.process_keyevent(KeyEvent::new(k2, KeyState::Down));
    (a, b)
}

//@ LEMMA C14/client_release_yields_nothing
pub fn c14_client_release<L: KeyboardLayout>(d: &mut EventDecoder<L>, k: KeyCode) -> (r: (Option<DecodedKey>, Option<DecodedKey>))
    ensures
        r.0.is_none(),
        r.1.is_none(),
{
    let a = d.process_keyevent(KeyEvent::new(k, KeyState::Up));
    let b = d.process_keyevent(KeyEvent::new(k, KeyState::SingleShot));
    (a, b)
}

//@ LEMMA C14/client_keyboard_uses_current_mode
pub fn c14_client_keyboard<L: KeyboardLayout, S: ScancodeSet>(kb: &mut Keyboard<L, S>, k: KeyCode, h: HandleControl) -> (r: Option<DecodedKey>)
    requires
        !is_modifier_key(k),
    ensures
        r == Some(old(kb).evd().lay().spec_map(k, &old(kb).evd().mods(), h)),
{
    kb.set_ctrl_handling(h);
    kb.process_keyevent(KeyEvent::new(k, KeyState::Down))
}

} // mod verif_c14
