// C02 — Set 1 byte streams decode to exactly the standard key events. Same structure as C01.
pub mod verif_c02 {
use vstd::prelude::*;
use crate::*;
use crate::verif_c02_cells::*;

pub open spec fn none() -> ScOut {
    Ok::<Option<KeyEvent>, Error>(None)
}

pub open spec fn low7(c: u8) -> u8 {
    (c & 0x7F) as u8
}

//@ LEMMA C02/sequences
/// all forms `[E0|E1]? byte`: low seven bits are the code, top bit means release
pub proof fn lemma_c02_sequences(c: u8)
    ensures
        set1_out(PrefixCtx::Start, 0xE0) == none() && set1_next(PrefixCtx::Start, 0xE0) == PrefixCtx::Extended,
        set1_out(PrefixCtx::Start, 0xE1) == none() && set1_next(PrefixCtx::Start, 0xE1) == PrefixCtx::Extended2,
        c != 0xE0 && c != 0xE1 && !gap_set1_plain(low7(c)) ==> set1_out(PrefixCtx::Start, c) == ev(ref_set1_plain(low7(c)), if c >= 0x80 { KeyState::Up } else { KeyState::Down }),
        !gap_set1_e0(low7(c)) ==> set1_out(PrefixCtx::Extended, c) == ev(ref_set1_e0(low7(c)), if c >= 0x80 { KeyState::Up } else { KeyState::Down }),
        !gap_set1_e1(low7(c)) ==> set1_out(PrefixCtx::Extended2, c) == ev(ref_set1_e1(low7(c)), if c >= 0x80 { KeyState::Up } else { KeyState::Down }),
        c != 0xE0 && c != 0xE1 ==> set1_next(PrefixCtx::Start, c) == PrefixCtx::Start,
        set1_next(PrefixCtx::Extended, c) == PrefixCtx::Start && set1_next(PrefixCtx::Extended2, c) == PrefixCtx::Start,
{
    table_set1_plain();
    table_set1_e0();
    table_set1_e1();
    assert(c >= 0x80 ==> (c - 0x80) as u8 == c & 0x7F) by (bit_vector);
    assert(c < 0x80 ==> c == c & 0x7F) by (bit_vector);
}

//@ LEMMA C02/undefined_codes_are_unknown
pub proof fn lemma_c02_unknown(c: u8)
    ensures
        ref_set1_plain(low7(c)).is_err() && c != 0xE0 && c != 0xE1 && !gap_set1_plain(low7(c)) ==> set1_out(PrefixCtx::Start, c) == Err::<Option<KeyEvent>, Error>(Error::UnknownKeyCode),
        ref_set1_e0(low7(c)).is_err() && !gap_set1_e0(low7(c)) ==> set1_out(PrefixCtx::Extended, c) == Err::<Option<KeyEvent>, Error>(Error::UnknownKeyCode),
        ref_set1_e1(low7(c)).is_err() && !gap_set1_e1(low7(c)) ==> set1_out(PrefixCtx::Extended2, c) == Err::<Option<KeyEvent>, Error>(Error::UnknownKeyCode),
{
    lemma_c02_sequences(c);
}

//@ LEMMA C02/client_extended_break
/// real code: E0 (c | 0x80) on the real decoder from the initial condition is a release of the E0 table's key
pub fn c02_client_e0_break(d: &mut ScancodeSet1, c: u8) -> (r: (ScOut, ScOut))
    requires
        old(d).ctx() == PrefixCtx::Start,
        c < 0x80,
    ensures
        r.0 == none(),
        !gap_set1_e0(c) ==> r.1 == ev(ref_set1_e0(c), KeyState::Up),
        final(d).ctx() == PrefixCtx::Start,
{
    proof {
        lemma_c02_sequences((c | 0x80) as u8);
        assert(c < 0x80 ==> (c | 0x80) & 0x7F == c && (c | 0x80) >= 0x80) by (bit_vector);
    }
    let a = d.advance_state(0xE0);
    let b = d.advance_state(c | 0x80);
    (a, b)
}

//@ LEMMA C02/client_after_any_history
pub fn c02_client_any_state(d: &mut ScancodeSet1, x: u8, c: u8) -> (r: (ScOut, ScOut))
    requires
        old(d).wf(),
        c < 0x80,
    ensures
        r.0 != none() && !gap_set1_plain(c) ==> r.1 == ev(ref_set1_plain(c), KeyState::Down),
{
    proof {
        lemma_c02_sequences(c);
        crate::verif_c07::c07_set1_step();
        assert(c < 0x80 ==> c & 0x7F == c) by (bit_vector);
    }
    let a = d.advance_state(x);
    assert(set1_out(old(d).ctx(), x) == set1_out(old(d).ctx(), x));
    let b = d.advance_state(c);
    (a, b)
}

//@ LEMMA C02/client_keyboard_add_byte
pub fn c02_client_keyboard<L: KeyboardLayout>(kb: &mut Keyboard<L, ScancodeSet1>, c: u8) -> (r: (ScOut, ScOut))
    requires
        old(kb).wf(),
        old(kb).sc().ctx() == PrefixCtx::Start,
        c < 0x80,
    ensures
        r.0 == none(),
        !gap_set1_e1(c) ==> r.1 == ev(ref_set1_e1(c), KeyState::Down),
{
    proof {
        lemma_c02_sequences(c);
        assert(c < 0x80 ==> c & 0x7F == c) by (bit_vector);
    }
    let a = kb.add_byte(0xE1);
    let b = kb.add_byte(c);
    (a, b)
}

} // mod verif_c02
