// C19 — make/break pairing and one-to-one sequences within each scancode set.
// Injectivity is in the generated module verif_c19_cells (verified inverse maps). Pairing is a consequence of the
// automaton specifications that the real advance_state functions are proved to implement: the make and the break
// path of a prefix context consult the same table denotation. No reference table is involved.
pub mod verif_c19 {
use vstd::prelude::*;
use crate::*;

pub open spec fn down(k: KeyCode) -> ScOut {
    Ok::<Option<KeyEvent>, Error>(Some(KeyEvent { code: k, state: KeyState::Down }))
}

pub open spec fn up(k: KeyCode) -> ScOut {
    Ok::<Option<KeyEvent>, Error>(Some(KeyEvent { code: k, state: KeyState::Up }))
}

//@ LEMMA C19/set2_pairing
/// Set 2: `[E0|E1]? c` is a press of K  iff  `[E0|E1]? F0 c` is a release of the same K (status codes aside)
pub proof fn lemma_c19_set2(c: u8, k: KeyCode)
    requires
        c != 0xE0 && c != 0xE1 && c != 0xF0,
        c != 0x00 && c != 0xAA,
    ensures
        set2_out(PrefixCtx::Start, c) == down(k) <==> set2_out(PrefixCtx::Release, c) == up(k),
        set2_out(PrefixCtx::Extended, c) == down(k) <==> set2_out(PrefixCtx::ExtendedRelease, c) == up(k),
        set2_out(PrefixCtx::Extended2, c) == down(k) <==> set2_out(PrefixCtx::Extended2Release, c) == up(k),
        // the break sequence is really reachable: the prefix F0 leads from the make context to the break context
        set2_next(PrefixCtx::Start, 0xF0) == PrefixCtx::Release,
        set2_next(PrefixCtx::Extended, 0xF0) == PrefixCtx::ExtendedRelease,
        set2_next(PrefixCtx::Extended2, 0xF0) == PrefixCtx::Extended2Release,
{
}

//@ LEMMA C19/set2_prefix_bytes_are_not_keys
/// the three prefix bytes are not key codes in a position where they would shadow a break sequence
pub proof fn lemma_c19_set2_prefixes(k: KeyCode)
    ensures
        set2_out(PrefixCtx::Release, 0xE0) != up(k) && set2_out(PrefixCtx::Release, 0xE1) != up(k) && set2_out(PrefixCtx::Release, 0xF0) != up(k),
        set2_out(PrefixCtx::ExtendedRelease, 0xF0) != up(k) && set2_out(PrefixCtx::Extended2Release, 0xF0) != up(k),
{
}

//@ LEMMA C19/set1_pairing
/// Set 1: `[E0|E1]? c` (c < 0x80) is a press of K  iff  `[E0|E1]? c|0x80` is a release of the same K
pub proof fn lemma_c19_set1(c: u8, k: KeyCode)
    requires
        c < 0x80,
    ensures
        set1_out(PrefixCtx::Start, c) == down(k) <==> set1_out(PrefixCtx::Start, (c | 0x80) as u8) == up(k),
        set1_out(PrefixCtx::Extended, c) == down(k) <==> set1_out(PrefixCtx::Extended, (c | 0x80) as u8) == up(k),
        set1_out(PrefixCtx::Extended2, c) == down(k) <==> set1_out(PrefixCtx::Extended2, (c | 0x80) as u8) == up(k),
{
    assert(c < 0x80 ==> (c | 0x80) >= 0x80 && ((c | 0x80) - 0x80) as u8 == c) by (bit_vector);
    assert(c < 0x80 ==> ((c | 0x80 == 0xE0) <==> c == 0x60) && ((c | 0x80 == 0xE1) <==> c == 0x61)) by (bit_vector);
}

//@ LEMMA C19/client_set2_press_then_release
/// real code: if `c` is reported as a press of K then `F0 c` is reported as a release of K
pub fn c19_client2(d: &mut ScancodeSet2, c: u8) -> (r: (ScOut, ScOut, ScOut))
    requires
        old(d).ctx() == PrefixCtx::Start,
        c != 0xE0 && c != 0xE1 && c != 0xF0,
        c != 0x00 && c != 0xAA,
    ensures
        forall|k: KeyCode| r.0 == down(k) <==> r.2 == up(k),
        r.1 == Ok::<Option<KeyEvent>, Error>(None),
{
    let a = d.advance_state(c);
    let b = d.advance_state(0xF0);
    let e = d.advance_state(c);
    assert forall|k: KeyCode| a == down(k) <==> e == up(k) by {
        lemma_c19_set2(c, k);
    }
    (a, b, e)
}

//@ LEMMA C19/client_set1_press_then_release
pub fn c19_client1(d: &mut ScancodeSet1, c: u8) -> (r: (ScOut, ScOut))
    requires
        old(d).ctx() == PrefixCtx::Start,
        c < 0x80,
    ensures
        forall|k: KeyCode| r.0 == down(k) <==> r.1 == up(k),
{
    let a = d.advance_state(c);
    let b = d.advance_state(c | 0x80);
    assert forall|k: KeyCode| a == down(k) <==> b == up(k) by {
        lemma_c19_set1(c, k);
    }
    (a, b)
}

} // mod verif_c19
