// Shared definitions for the layout properties (C03, C09-C12, C15, C16). No obligations of their own: each
// predicate below is the per-(layout, key) cell formula of one property, written from the property statement
// over the layout's denotation `spec_map` (derived mechanically from the real map_keycode body on every run and
// proved equal to it by Verus).
pub mod verif_ldefs {
use vstd::prelude::*;
use crate::*;

/// initial modifiers: NumLock on, everything else off
pub open spec fn m0() -> Modifiers {
    initial_mods()
}

/// the three plain levels: no modifier, one Shift, AltGr alone
pub open spec fn level_mods(lvl: int) -> Modifiers {
    if lvl == 0 {
        m0()
    } else if lvl == 1 {
        Modifiers { lshift: true, ..m0() }
    } else {
        Modifiers { ralt: true, ..m0() }
    }
}

// The five facts, written from the property statements over the nine flags (NOT through the crate's predicates, so that
// a changed predicate cannot redefine what "Shift held" means in a property formula).
/// Shift: either shift key
pub open spec fn shift(m: Modifiers) -> bool {
    m.lshift || m.rshift
}

/// Ctrl: either ctrl key (the hidden Pause-Ctrl flag is not a Ctrl key)
pub open spec fn ctrl(m: Modifiers) -> bool {
    m.lctrl || m.rctrl
}

/// AltGr: right Alt, or left Alt together with Ctrl
pub open spec fn altgr(m: Modifiers) -> bool {
    m.ralt || (m.lalt && (m.lctrl || m.rctrl))
}

pub open spec fn uni(c: u32) -> DecodedKey {
    DecodedKey::Unicode(c as char)
}

pub open spec fn is_numpad(k: KeyCode) -> bool {
    k == KeyCode::Numpad0 || k == KeyCode::Numpad1 || k == KeyCode::Numpad2 || k == KeyCode::Numpad3 || k == KeyCode::Numpad4
        || k == KeyCode::Numpad5 || k == KeyCode::Numpad6 || k == KeyCode::Numpad7 || k == KeyCode::Numpad8 || k == KeyCode::Numpad9
        || k == KeyCode::NumpadPeriod || k == KeyCode::NumpadAdd || k == KeyCode::NumpadSubtract || k == KeyCode::NumpadMultiply
        || k == KeyCode::NumpadDivide || k == KeyCode::NumpadEnter || k == KeyCode::NumpadLock
}

// ---------------------------------------------------------------- C09
/// the key types the ASCII letter a..z at its base level
pub open spec fn types_letter<L: KeyboardLayout>(l: L, k: KeyCode) -> bool {
    l.spec_map(k, &m0(), HandleControl::Ignore) matches DecodedKey::Unicode(c) && 0x61 <= c as u32 <= 0x7a
}

pub open spec fn c09_cell<L: KeyboardLayout>(l: L, k: KeyCode) -> bool {
    let base = l.spec_map(k, &m0(), HandleControl::Ignore);
    let letter = types_letter(l, k);
    // Ctrl (either) without Alt/AltGr, mapping on: the control character of the layout's letter, whatever Shift/CapsLock/NumLock/hidden flag
    &&& (letter ==> forall|m: Modifiers| ctrl(m) && !m.lalt && !m.ralt ==> (#[trigger] l.spec_map(k, &m, HandleControl::MapLettersToUnicode))
        == uni(((base->Unicode_0 as u32) - 0x60) as u32))
    // Ctrl not held, or a non-letter key: Ctrl handling changes nothing
    &&& (forall|m: Modifiers| (!letter || !ctrl(m)) ==> (#[trigger] l.spec_map(k, &m, HandleControl::MapLettersToUnicode)) == l.spec_map(
        k,
        &m,
        HandleControl::Ignore,
    ))
    // mapping disabled: holding Ctrl changes nothing (left Alt aside, with which Ctrl forms the AltGr chord)
    &&& (forall|m: Modifiers| !m.lalt ==> (#[trigger] l.spec_map(k, &m, HandleControl::Ignore)) == l.spec_map(
        k,
        &Modifiers { lctrl: false, rctrl: false, ..m },
        HandleControl::Ignore,
    ))
}

// ---------------------------------------------------------------- C10
/// x is a lowercase letter (ASCII or Latin-1 national letter) and y its uppercase form
pub open spec fn lower_upper(a: DecodedKey, b: DecodedKey) -> bool {
    match (a, b) {
        (DecodedKey::Unicode(x), DecodedKey::Unicode(y)) => ((0x61 <= x as u32 <= 0x7a) || (0xe0 <= x as u32 <= 0xfe && x as u32 != 0xf7)) && (y as u32)
            + 0x20 == x as u32,
        _ => false,
    }
}

pub open spec fn is_letter_key<L: KeyboardLayout>(l: L, k: KeyCode) -> bool {
    lower_upper(l.spec_map(k, &m0(), HandleControl::Ignore), l.spec_map(k, &Modifiers { lshift: true, ..m0() }, HandleControl::Ignore))
}

pub open spec fn c10_cell<L: KeyboardLayout>(l: L, k: KeyCode) -> bool {
    let letter = is_letter_key(l, k);
    // letter keys: CapsLock acts exactly as an inversion of Shift; other keys: CapsLock changes nothing
    forall|m: Modifiers, n: Modifiers, h: HandleControl|
        (m.capslock != n.capslock && m.lctrl == n.lctrl && m.rctrl == n.rctrl && m.lalt == n.lalt && m.ralt == n.ralt && m.rctrl2 == n.rctrl2
            && m.numlock == n.numlock && (if letter { shift(m) != shift(n) } else { m.lshift == n.lshift && m.rshift == n.rshift }))
            ==> (#[trigger] l.spec_map(k, &m, h)) == (#[trigger] l.spec_map(k, &n, h))
}

// ---------------------------------------------------------------- C11
pub open spec fn same_facts(m: Modifiers, n: Modifiers, numpad: bool) -> bool {
    shift(m) == shift(n) && ctrl(m) == ctrl(n) && altgr(m) == altgr(n) && m.capslock == n.capslock && (numpad
        ==> m.numlock == n.numlock)
}

pub open spec fn c11_cell<L: KeyboardLayout>(l: L, k: KeyCode) -> bool {
    forall|m: Modifiers, n: Modifiers, h: HandleControl|
        same_facts(m, n, is_numpad(k)) ==> (#[trigger] l.spec_map(k, &m, h)) == (#[trigger] l.spec_map(k, &n, h))
}

// ---------------------------------------------------------------- C12
pub open spec fn c12_cell<L: KeyboardLayout>(l: L, c: u32) -> bool {
    exists|k: KeyCode, lvl: int| 0 <= lvl < 3 && #[trigger] l.spec_map(k, &level_mods(lvl), HandleControl::Ignore) == uni(c)
}

// ---------------------------------------------------------------- C15
pub open spec fn numpad_alias(k: KeyCode) -> Option<KeyCode> {
    match k {
        KeyCode::Numpad0 => Some(KeyCode::Insert),
        KeyCode::Numpad1 => Some(KeyCode::End),
        KeyCode::Numpad2 => Some(KeyCode::ArrowDown),
        KeyCode::Numpad3 => Some(KeyCode::PageDown),
        KeyCode::Numpad4 => Some(KeyCode::ArrowLeft),
        KeyCode::Numpad6 => Some(KeyCode::ArrowRight),
        KeyCode::Numpad7 => Some(KeyCode::Home),
        KeyCode::Numpad8 => Some(KeyCode::ArrowUp),
        KeyCode::Numpad9 => Some(KeyCode::PageUp),
        _ => None,
    }
}

/// numpad digit key: its digit while NumLock is on, its navigation alias (raw) while off (Numpad5 off: unconstrained)
pub open spec fn c15_digit<L: KeyboardLayout>(l: L, k: KeyCode, digit: u32) -> bool {
    forall|m: Modifiers, h: HandleControl|
        (m.numlock ==> (#[trigger] l.spec_map(k, &m, h)) == uni(digit)) && (!m.numlock ==> (numpad_alias(k) matches Some(a) ==> l.spec_map(k, &m, h)
            == DecodedKey::RawKey(a)))
}

/// a key that types the same character in every modifier state
pub open spec fn c15_const<L: KeyboardLayout>(l: L, k: KeyCode, c: u32) -> bool {
    forall|m: Modifiers, h: HandleControl| (#[trigger] l.spec_map(k, &m, h)) == uni(c)
}

pub open spec fn c15_enter<L: KeyboardLayout>(l: L) -> bool {
    forall|m: Modifiers, h: HandleControl| (#[trigger] l.spec_map(KeyCode::NumpadEnter, &m, h)) == l.spec_map(KeyCode::Return, &m, h)
}

/// numpad decimal key: the layout's decimal separator with NumLock on, Delete (U+007F) with it off
pub open spec fn c15_decimal<L: KeyboardLayout>(l: L, sep: u32) -> bool {
    forall|m: Modifiers, h: HandleControl|
        (m.numlock ==> (#[trigger] l.spec_map(KeyCode::NumpadPeriod, &m, h)) == uni(sep)) && (!m.numlock ==> l.spec_map(KeyCode::NumpadPeriod, &m, h)
            == uni(0x7f))
}

// ---------------------------------------------------------------- C16
pub open spec fn c16_raw<L: KeyboardLayout>(l: L, k: KeyCode) -> bool {
    forall|m: Modifiers, h: HandleControl| (#[trigger] l.spec_map(k, &m, h)) == DecodedKey::RawKey(k)
}

/// whenever any key decodes to a raw key it is its own code or, for a numpad key with NumLock off, its alias
pub open spec fn c16_alias<L: KeyboardLayout>(l: L, k: KeyCode) -> bool {
    forall|m: Modifiers, h: HandleControl|
        (#[trigger] l.spec_map(k, &m, h)) matches DecodedKey::RawKey(k2) ==> (k2 == k || (!m.numlock && numpad_alias(k) == Some(k2)))
}

// ---------------------------------------------------------------- C03
/// modifier states that select a level with nothing else interfering: CapsLock off, Ctrl not being mapped
pub open spec fn selects(lvl: int, m: Modifiers, h: HandleControl) -> bool {
    !m.capslock && !(h == HandleControl::MapLettersToUnicode && ctrl(m)) && (if lvl == 0 {
        !shift(m) && !altgr(m)
    } else if lvl == 1 {
        shift(m) && !altgr(m)
    } else {
        altgr(m) && !shift(m)
    })
}

/// at level lvl the key types one of (at most three) accepted characters, in every modifier state selecting that level
pub open spec fn c03_level<L: KeyboardLayout>(l: L, k: KeyCode, lvl: int, a: u32, b: u32, c: u32) -> bool {
    forall|m: Modifiers, h: HandleControl|
        selects(lvl, m, h) ==> ((#[trigger] l.spec_map(k, &m, h)) == uni(a) || l.spec_map(k, &m, h) == uni(b) || l.spec_map(k, &m, h) == uni(c))
}

/// a key without an AltGr entry in the reference must not have a distinct AltGr-level character
pub open spec fn c03_no_altgr<L: KeyboardLayout>(l: L, k: KeyCode) -> bool {
    l.spec_map(k, &level_mods(2), HandleControl::Ignore) == l.spec_map(k, &level_mods(0), HandleControl::Ignore)
}

} // mod verif_ldefs
