// C06 — bit-serial framing equals whole-word decoding; frames are independent.
// `ps2_step` is the postcondition of the real Ps2Decoder::add_bit (under the invariant wf, which add_bit/new/clear
// are proved to establish and preserve). These lemmas lift the step to frames and to streams of frames.
pub mod verif_c06 {
use vstd::prelude::*;
use crate::*;

pub type St = (u8, u16);
pub type BitOut = Result<Option<u8>, Error>;

pub open spec fn st_wf(s: St) -> bool {
    s.0 < 11 && s.1 < pow2_16(s.0)
}

/// state after feeding bits[0..k) of word w, starting from s
pub open spec fn run_bits(s: St, w: u16, from: nat, to: nat) -> St
    decreases to - from,
{
    if from >= to { s } else { run_bits(ps2_step(s.0, s.1, bit_of(w, from as u16)).0, w, from + 1, to) }
}

pub open spec fn mask(k: nat) -> u16 {
    if k < 16 { ((1u16 << (k as u16)) - 1) as u16 } else { 0xFFFFu16 }
}

/// run_bits to k+1 is one more step after run_bits to k
pub proof fn lemma_run_bits_snoc_from(s: St, w: u16, from: nat, k: nat)
    requires
        from <= k,
    ensures
        run_bits(s, w, from, k + 1) == ps2_step(run_bits(s, w, from, k).0, run_bits(s, w, from, k).1, bit_of(w, k as u16)).0,
    decreases k - from,
{
    if from == k {
        reveal_with_fuel(run_bits, 3);
    } else {
        lemma_run_bits_snoc_from(ps2_step(s.0, s.1, bit_of(w, from as u16)).0, w, from + 1, k);
    }
}

pub proof fn lemma_run_bits_snoc(w: u16, k: nat)
    requires
        k <= 10,
    ensures
        run_bits((0u8, 0u16), w, 0, k + 1) == ps2_step(run_bits((0u8, 0u16), w, 0, k).0, run_bits((0u8, 0u16), w, 0, k).1, bit_of(w, k as u16)).0,
{
    lemma_run_bits_snoc_from((0u8, 0u16), w, 0, k);
}

//@ LEMMA C06/prefix_state
/// after k <= 10 bits of frame w the register holds exactly the low k bits of w
pub proof fn lemma_c06_prefix_state(w: u16, k: nat)
    requires
        k <= 10,
    ensures
        run_bits((0u8, 0u16), w, 0, k) == (k as u8, (w & mask(k)) as u16),
    decreases k,
{
    if k == 0 {
        reveal_with_fuel(run_bits, 1);
        assert(w & ((1u16 << 0u16) - 1) as u16 == 0) by (bit_vector);
    } else {
        let j = (k - 1) as nat;
        lemma_c06_prefix_state(w, j);
        lemma_run_bits_snoc(w, j);
        let jj = j as u16;
        assert(((w & ((1u16 << jj) - 1) as u16) | (if ((w >> jj) & 1u16) != 0 { 1u16 << jj } else { 0u16 })) == (w & ((1u16 << ((jj + 1) as u16)) - 1) as u16))
            by (bit_vector)
            requires jj < 10;
    }
}

//@ LEMMA C06/frame_equals_whole_word
/// from the empty register the first ten bits of any frame give 'incomplete' and the 11th gives exactly the
/// whole-word verdict, leaving the register empty
pub proof fn lemma_c06_frame(w: u16)
    requires
        w < 2048,
    ensures
        forall|k: nat| k < 10 ==> (#[trigger] run_bits((0u8, 0u16), w, 0, k)).0 == k,
        forall|k: nat| k < 10 ==> ps2_step(run_bits((0u8, 0u16), w, 0, k).0, run_bits((0u8, 0u16), w, 0, k).1, bit_of(w, k as u16)).1
            == Ok::<Option<u8>, Error>(None),
        run_bits((0u8, 0u16), w, 0, 10) == (10u8, (w & 1023u16)),
        ps2_step(10u8, (w & 1023u16), bit_of(w, 10)) == (((0u8, 0u16)), lift_frame(frame_ref(w))),
{
    assert forall|k: nat| k < 10 implies (#[trigger] run_bits((0u8, 0u16), w, 0, k)).0 == k by {
        lemma_c06_prefix_state(w, k);
    }
    lemma_c06_prefix_state(w, 10);
    assert(((1u16 << 10u16) - 1) as u16 == 1023u16) by (bit_vector);
    assert(w < 2048 ==> ((w & 1023u16) | (if ((w >> 10u16) & 1u16) != 0 { 1024u16 } else { 0u16 })) == w) by (bit_vector);
}

//@ LEMMA C06/invariant_preserved
pub proof fn lemma_c06_wf(s: St, bit: bool)
    requires
        st_wf(s),
    ensures
        st_wf(ps2_step(s.0, s.1, bit).0),
        s.0 == 10 ==> ps2_step(s.0, s.1, bit).0 == (0u8, 0u16),
{
    lemma_shift_bounds(s.1, s.0, bit);
}

// ---- streams of frames
/// outputs of a frame shifted in bit by bit into an empty register: ten `incomplete`, then the verdict
pub open spec fn frame_outs(w: u16) -> Seq<BitOut> {
    Seq::new(11, |i: int| if i < 10 { Ok::<Option<u8>, Error>(None) } else { lift_frame(frame_ref(w)) })
}

pub open spec fn feed_state(s: St, bits: Seq<bool>) -> St
    decreases bits.len(),
{
    if bits.len() == 0 { s } else { ps2_step(feed_state(s, bits.drop_last()).0, feed_state(s, bits.drop_last()).1, bits.last()).0 }
}

pub open spec fn feed_outs(s: St, bits: Seq<bool>) -> Seq<BitOut>
    decreases bits.len(),
{
    if bits.len() == 0 {
        Seq::empty()
    } else {
        feed_outs(s, bits.drop_last()).push(ps2_step(feed_state(s, bits.drop_last()).0, feed_state(s, bits.drop_last()).1, bits.last()).1)
    }
}

pub open spec fn frame_bits(w: u16) -> Seq<bool> {
    Seq::new(11, |i: int| bit_of(w, i as u16))
}

pub open spec fn stream_bits(frames: Seq<u16>) -> Seq<bool>
    decreases frames.len(),
{
    if frames.len() == 0 { Seq::empty() } else { stream_bits(frames.drop_last()) + frame_bits(frames.last()) }
}

pub open spec fn stream_outs(frames: Seq<u16>) -> Seq<BitOut>
    decreases frames.len(),
{
    if frames.len() == 0 { Seq::empty() } else { stream_outs(frames.drop_last()) + frame_outs(frames.last()) }
}

//@ LEMMA C06/feed_concat
pub proof fn lemma_feed_concat(s: St, a: Seq<bool>, b: Seq<bool>)
    ensures
        feed_state(s, a + b) == feed_state(feed_state(s, a), b),
        feed_outs(s, a + b) == feed_outs(s, a) + feed_outs(feed_state(s, a), b),
    decreases b.len(),
{
    if b.len() == 0 {
        assert(a + b =~= a);
        assert(feed_outs(s, a) + Seq::<BitOut>::empty() =~= feed_outs(s, a));
    } else {
        lemma_feed_concat(s, a, b.drop_last());
        assert((a + b).drop_last() =~= a + b.drop_last());
        assert((a + b).last() == b.last());
        let t = feed_state(feed_state(s, a), b.drop_last());
        assert(feed_outs(s, a) + feed_outs(feed_state(s, a), b) =~= (feed_outs(s, a) + feed_outs(feed_state(s, a), b.drop_last())).push(
            ps2_step(t.0, t.1, b.last()).1));
    }
}

/// feed_state/feed_outs over the first k bits of one frame coincide with run_bits
proof fn lemma_feed_prefix(w: u16, k: nat)
    requires
        w < 2048,
        k <= 11,
    ensures
        k <= 10 ==> feed_state((0u8, 0u16), frame_bits(w).subrange(0, k as int)) == run_bits((0u8, 0u16), w, 0, k),
        k == 11 ==> feed_state((0u8, 0u16), frame_bits(w).subrange(0, k as int)) == (0u8, 0u16),
        feed_outs((0u8, 0u16), frame_bits(w).subrange(0, k as int)) =~= frame_outs(w).subrange(0, k as int),
    decreases k,
{
    lemma_c06_frame(w);
    let bits = frame_bits(w).subrange(0, k as int);
    if k == 0 {
        reveal_with_fuel(run_bits, 1);
    } else {
        lemma_feed_prefix(w, (k - 1) as nat);
        let prev = frame_bits(w).subrange(0, (k - 1) as int);
        assert(bits.drop_last() =~= prev);
        assert(bits.last() == bit_of(w, (k - 1) as u16));
        lemma_run_bits_snoc(w, (k - 1) as nat);
    }
}

//@ LEMMA C06/one_frame_from_empty
pub proof fn lemma_c06_one_frame(w: u16)
    requires
        w < 2048,
    ensures
        feed_state((0u8, 0u16), frame_bits(w)) == (0u8, 0u16),
        feed_outs((0u8, 0u16), frame_bits(w)) == frame_outs(w),
{
    lemma_feed_prefix(w, 11);
    assert(frame_bits(w).subrange(0, 11) =~= frame_bits(w));
    assert(frame_outs(w).subrange(0, 11) =~= frame_outs(w));
}

//@ LEMMA C06/frames_are_independent
/// any stream of frames - valid or corrupted - decodes frame by frame: every frame gets exactly its own
/// whole-word verdict whatever preceded it, and the register is empty after each
pub proof fn lemma_c06_stream(frames: Seq<u16>)
    requires
        forall|i: int| 0 <= i < frames.len() ==> frames[i] < 2048,
    ensures
        feed_state((0u8, 0u16), stream_bits(frames)) == (0u8, 0u16),
        feed_outs((0u8, 0u16), stream_bits(frames)) == stream_outs(frames),
    decreases frames.len(),
{
    if frames.len() > 0 {
        lemma_c06_stream(frames.drop_last());
        lemma_c06_one_frame(frames.last());
        lemma_feed_concat((0u8, 0u16), stream_bits(frames.drop_last()), frame_bits(frames.last()));
    }
}

//@ LEMMA C06/client_feed_bit
/// real code: one add_bit call while shifting in frame w follows run_bits / the whole-word verdict
pub fn c06_feed_bit(d: &mut Ps2Decoder, w: u16, k: u8) -> (r: Result<Option<u8>, Error>)
    requires
        w < 2048,
        k <= 10,
        old(d).wf(),
        (old(d).nbits(), old(d).reg()) == run_bits((0u8, 0u16), w, 0, k as nat),
    ensures
        final(d).wf(),
        k < 10 ==> (final(d).nbits(), final(d).reg()) == run_bits((0u8, 0u16), w, 0, (k + 1) as nat),
        k < 10 ==> r == Ok::<Option<u8>, Error>(None),
        k == 10 ==> final(d).nbits() == 0 && final(d).reg() == 0 && r == lift_frame(frame_ref(w)),
{
    proof {
        lemma_c06_frame(w);
        lemma_run_bits_snoc(w, k as nat);
    }
    d.add_bit((w >> (k as u16)) & 1 != 0)
}

//@ LEMMA C06/client_clear_then_frame
/// real code: after clear() from any state (any number of bits of an abandoned frame), shifting in the 11 bits
/// of a frame yields ten times Ok(None) and then exactly what whole-word decoding returns
pub fn c06_client_clear(d: &mut Ps2Decoder, w: u16) -> (r: Result<Option<u8>, Error>)
    requires
        w < 2048,
    ensures
        r == lift_frame(frame_ref(w)),
        final(d).nbits() == 0 && final(d).reg() == 0,
{
    d.clear();
    proof {
        reveal_with_fuel(run_bits, 1);
    }
    let r0 = c06_feed_bit(d, w, 0);
    let r1 = c06_feed_bit(d, w, 1);
    let r2 = c06_feed_bit(d, w, 2);
    let r3 = c06_feed_bit(d, w, 3);
    let r4 = c06_feed_bit(d, w, 4);
    let r5 = c06_feed_bit(d, w, 5);
    let r6 = c06_feed_bit(d, w, 6);
    let r7 = c06_feed_bit(d, w, 7);
    let r8 = c06_feed_bit(d, w, 8);
    let r9 = c06_feed_bit(d, w, 9);
    assert(r0 == Ok::<Option<u8>, Error>(None) && r1 == r0 && r2 == r0 && r3 == r0 && r4 == r0 && r5 == r0 && r6 == r0 && r7 == r0
        && r8 == r0 && r9 == r0);
    c06_feed_bit(d, w, 10)
}

//@ LEMMA C06/client_error_does_not_leak
/// real code: whatever the previous frame's last bit was - i.e. whether that frame was accepted or rejected -
/// the next frame decodes on its own
pub fn c06_client_two_frames(d: &mut Ps2Decoder, last_bit_of_previous: bool, w: u16) -> (r: Result<Option<u8>, Error>)
    requires
        old(d).wf(),
        old(d).nbits() == 10,
        w < 2048,
    ensures
        r == lift_frame(frame_ref(w)),
{
    let _ = d.add_bit(last_bit_of_previous);
    proof {
        reveal_with_fuel(run_bits, 1);
    }
    let _ = c06_feed_bit(d, w, 0);
    let _ = c06_feed_bit(d, w, 1);
    let _ = c06_feed_bit(d, w, 2);
    let _ = c06_feed_bit(d, w, 3);
    let _ = c06_feed_bit(d, w, 4);
    let _ = c06_feed_bit(d, w, 5);
    let _ = c06_feed_bit(d, w, 6);
    let _ = c06_feed_bit(d, w, 7);
    let _ = c06_feed_bit(d, w, 8);
    let _ = c06_feed_bit(d, w, 9);
    c06_feed_bit(d, w, 10)
}

} // mod verif_c06
