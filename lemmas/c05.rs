// C05 — PS/2 frames: accepted iff start=0, stop=1, odd parity; yield the data byte.
// `frame_ref` is the postcondition of the real check_word / add_word; these are its consequences.
pub mod verif_c05 {
use vstd::prelude::*;
use crate::*;

/// the frame a keyboard sends for byte b: start 0, data LSB first, odd parity, stop 1
pub open spec fn encode(b: u8) -> u16 {
    (((b as u16) << 1u16) | (if popcount8(b) % 2 == 0 { 512u16 } else { 0u16 }) | 1024u16) as u16
}

//@ LEMMA C05/roundtrip
pub proof fn lemma_c05_roundtrip(b: u8)
    ensures
        encode(b) < 2048,
        frame_ref(encode(b)) == Ok::<u8, Error>(b),
{
    let p: u16 = if popcount8(b) % 2 == 0 { 512u16 } else { 0u16 };
    let w = encode(b);
    assert(w == (((b as u16) << 1u16) | p | 1024u16));
    assert((((b as u16) << 1u16) | p | 1024u16) < 2048) by (bit_vector)
        requires p == 512u16 || p == 0u16;
    assert(!bit_of(w, 0)) by (bit_vector)
        requires w == (((b as u16) << 1u16) | p | 1024u16), p == 512u16 || p == 0u16;
    assert(bit_of(w, 10)) by (bit_vector)
        requires w == (((b as u16) << 1u16) | p | 1024u16), p == 512u16 || p == 0u16;
    assert(bit_of(w, 9) == (p == 512u16)) by (bit_vector)
        requires w == (((b as u16) << 1u16) | p | 1024u16), p == 512u16 || p == 0u16;
    assert(data_of(w) == b) by (bit_vector)
        requires w == (((b as u16) << 1u16) | p | 1024u16), p == 512u16 || p == 0u16;
    lemma_frame_bits(w);
}

//@ LEMMA C05/accepted_iff
/// acceptance is exactly: start bit 0, stop bit 1, odd number of ones among data+parity; and the verdict order
pub proof fn lemma_c05_iff(w: u16)
    ensures
        frame_ref(w).is_ok() <==> (!bit_of(w, 0) && bit_of(w, 10) && ones9(w) % 2 == 1),
        frame_ref(w).is_ok() ==> frame_ref(w) == Ok::<u8, Error>(data_of(w)),
        bit_of(w, 0) ==> frame_ref(w) == Err::<u8, Error>(Error::BadStartBit),
        !bit_of(w, 0) && !bit_of(w, 10) ==> frame_ref(w) == Err::<u8, Error>(Error::BadStopBit),
        !bit_of(w, 0) && bit_of(w, 10) && ones9(w) % 2 == 0 ==> frame_ref(w) == Err::<u8, Error>(Error::ParityError),
{
}

pub open spec fn flip(w: u16, i: u16) -> u16 {
    w ^ (1u16 << i)
}

//@ LEMMA C05/single_bit_corruption_rejected
pub proof fn lemma_c05_single_bit(w: u16, i: u16)
    requires
        w < 2048,
        i < 11,
        frame_ref(w).is_ok(),
    ensures
        flip(w, i) < 2048,
        frame_ref(flip(w, i)).is_err(),
{
    let v = flip(w, i);
    assert(v < 2048) by (bit_vector)
        requires v == w ^ (1u16 << i), w < 2048, i < 11;
    assert(bit_of(v, 0) == (bit_of(w, 0) != (i == 0))) by (bit_vector)
        requires v == w ^ (1u16 << i), i < 11;
    assert(bit_of(v, 1) == (bit_of(w, 1) != (i == 1))) by (bit_vector)
        requires v == w ^ (1u16 << i), i < 11;
    assert(bit_of(v, 2) == (bit_of(w, 2) != (i == 2))) by (bit_vector)
        requires v == w ^ (1u16 << i), i < 11;
    assert(bit_of(v, 3) == (bit_of(w, 3) != (i == 3))) by (bit_vector)
        requires v == w ^ (1u16 << i), i < 11;
    assert(bit_of(v, 4) == (bit_of(w, 4) != (i == 4))) by (bit_vector)
        requires v == w ^ (1u16 << i), i < 11;
    assert(bit_of(v, 5) == (bit_of(w, 5) != (i == 5))) by (bit_vector)
        requires v == w ^ (1u16 << i), i < 11;
    assert(bit_of(v, 6) == (bit_of(w, 6) != (i == 6))) by (bit_vector)
        requires v == w ^ (1u16 << i), i < 11;
    assert(bit_of(v, 7) == (bit_of(w, 7) != (i == 7))) by (bit_vector)
        requires v == w ^ (1u16 << i), i < 11;
    assert(bit_of(v, 8) == (bit_of(w, 8) != (i == 8))) by (bit_vector)
        requires v == w ^ (1u16 << i), i < 11;
    assert(bit_of(v, 9) == (bit_of(w, 9) != (i == 9))) by (bit_vector)
        requires v == w ^ (1u16 << i), i < 11;
    assert(bit_of(v, 10) == (bit_of(w, 10) != (i == 10))) by (bit_vector)
        requires v == w ^ (1u16 << i), i < 11;
}

//@ LEMMA C05/client_add_word
/// the real Ps2Decoder::add_word, called on any valid encoding, returns the byte
pub fn c05_client(d: &Ps2Decoder, b: u8) -> (r: Result<u8, Error>)
    ensures
        r == Ok::<u8, Error>(b),
{
    let p: u16 = if b.count_ones() % 2 == 0 { 512 } else { 0 };
    proof {
        lemma_c05_roundtrip(b);
        assert((b as u16) << 1u16 == (b as u16) << 1u16);
    }
    let w: u16 = ((b as u16) << 1) | p | 1024;
    assert(w == encode(b));
    d.add_word(w)
}

} // mod verif_c05
