// C18 — Keyboard equals its three stages wired in sequence, with stages isolated.
// Simulation: a Keyboard and three separately-owned stages, fed the same input, stay in the same abstract state and
// return the same result, for every operation. Generic in the scancode set and the layout.
pub mod verif_c18 {
use vstd::prelude::*;
use crate::*;

/// the simulation relation between a Keyboard and three separate stages
pub open spec fn sim<L: KeyboardLayout, S: ScancodeSet>(kb: Keyboard<L, S>, p: Ps2Decoder, s: S, e: EventDecoder<L>) -> bool {
    kb.wf() && p.wf() && s.wf() && kb.ps2().nbits() == p.nbits() && kb.ps2().reg() == p.reg() && kb.sc().ctx() == s.ctx()
        && kb.evd().mods() == e.mods() && kb.evd().mode() == e.mode() && kb.evd().lay() == e.lay()
}

/// results agree wherever the statements fix the scancode output (everything but F0 00 / F0 AA in Set 2); 'no event yet' agrees always
pub open spec fn same_result<S: ScancodeSet>(c: PrefixCtx, fed: Option<u8>, a: ScOut, b: ScOut) -> bool {
    match fed {
        None => a == b,
        Some(byte) => (S::fixed(c, byte) ==> a == b) && ((a == Ok::<Option<KeyEvent>, Error>(None)) == (b == Ok::<Option<KeyEvent>, Error>(None))),
    }
}

//@ LEMMA C18/sim_add_byte
pub fn c18_add_byte<L: KeyboardLayout, S: ScancodeSet>(kb: &mut Keyboard<L, S>, p: &mut Ps2Decoder, s: &mut S, e: &mut EventDecoder<L>, byte: u8) -> (r: (ScOut, ScOut))
    requires
        sim(*old(kb), *old(p), *old(s), *old(e)),
    ensures
        sim(*final(kb), *final(p), *final(s), *final(e)),
        same_result::<S>(old(s).ctx(), Some(byte), r.0, r.1),
        // stages not fed are untouched
        final(kb).ps2() == old(kb).ps2(),
        final(kb).evd() == old(kb).evd(),
{
    let a = kb.add_byte(byte);
    let b = s.advance_state(byte);
    (a, b)
}

//@ LEMMA C18/sim_add_word
pub fn c18_add_word<L: KeyboardLayout, S: ScancodeSet>(kb: &mut Keyboard<L, S>, p: &mut Ps2Decoder, s: &mut S, e: &mut EventDecoder<L>, word: u16) -> (r: (ScOut, ScOut))
    requires
        sim(*old(kb), *old(p), *old(s), *old(e)),
        word < 2048,
    ensures
        sim(*final(kb), *final(p), *final(s), *final(e)),
        same_result::<S>(old(s).ctx(), match frame_ref(word) { Ok(b) => Some(b), Err(_) => None }, r.0, r.1),
        final(kb).ps2() == old(kb).ps2(),
        final(kb).evd() == old(kb).evd(),
        // a rejected frame is dropped without disturbing the scancode stage
        frame_ref(word).is_err() ==> final(kb).sc() == old(kb).sc() && r.0 == (match frame_ref(word) { Err(x) => Err::<Option<KeyEvent>, Error>(x), Ok(_) => r.0 }),
{
    let a = kb.add_word(word);
    let b = match p.add_word(word) {
        Ok(byte) => s.advance_state(byte),
        Err(x) => Err(x),
    };
    (a, b)
}

//@ LEMMA C18/sim_add_bit
pub fn c18_add_bit<L: KeyboardLayout, S: ScancodeSet>(kb: &mut Keyboard<L, S>, p: &mut Ps2Decoder, s: &mut S, e: &mut EventDecoder<L>, bit: bool) -> (r: (ScOut, ScOut))
    requires
        sim(*old(kb), *old(p), *old(s), *old(e)),
    ensures
        sim(*final(kb), *final(p), *final(s), *final(e)),
        same_result::<S>(old(s).ctx(), match ps2_step(old(p).nbits(), old(p).reg(), bit).1 { Ok(Some(b)) => Some(b), _ => None }, r.0, r.1),
        final(kb).evd() == old(kb).evd(),
        // the first ten bits, and a rejected frame, never reach the scancode stage
        !(ps2_step(old(p).nbits(), old(p).reg(), bit).1 matches Ok(Some(_))) ==> final(kb).sc() == old(kb).sc(),
{
    let a = kb.add_bit(bit);
    let b = match p.add_bit(bit) {
        Ok(Some(byte)) => s.advance_state(byte),
        Ok(None) => Ok(None),
        Err(x) => Err(x),
    };
    (a, b)
}

//@ LEMMA C18/sim_process_keyevent
pub fn c18_process<L: KeyboardLayout, S: ScancodeSet>(kb: &mut Keyboard<L, S>, p: &mut Ps2Decoder, s: &mut S, e: &mut EventDecoder<L>, ev1: KeyEvent, ev2: KeyEvent) -> (r: (Option<DecodedKey>, Option<DecodedKey>))
    requires
        sim(*old(kb), *old(p), *old(s), *old(e)),
        ev1 == ev2,
    ensures
        sim(*final(kb), *final(p), *final(s), *final(e)),
        r.0 == r.1,
        final(kb).ps2() == old(kb).ps2(),
        final(kb).sc() == old(kb).sc(),
{
    let a = kb.process_keyevent(ev1);
    let b = e.process_keyevent(ev2);
    (a, b)
}

//@ LEMMA C18/sim_clear
pub fn c18_clear<L: KeyboardLayout, S: ScancodeSet>(kb: &mut Keyboard<L, S>, p: &mut Ps2Decoder, s: &mut S, e: &mut EventDecoder<L>)
    requires
        sim(*old(kb), *old(p), *old(s), *old(e)),
    ensures
        sim(*final(kb), *final(p), *final(s), *final(e)),
        // clear() resets only the bit framing
        final(kb).sc() == old(kb).sc(),
        final(kb).evd() == old(kb).evd(),
        final(kb).ps2().nbits() == 0 && final(kb).ps2().reg() == 0,
{
    kb.clear();
    p.clear();
}

//@ LEMMA C18/sim_set_ctrl_handling
pub fn c18_set_ctrl<L: KeyboardLayout, S: ScancodeSet>(kb: &mut Keyboard<L, S>, p: &mut Ps2Decoder, s: &mut S, e: &mut EventDecoder<L>, h: HandleControl) -> (r: (HandleControl, HandleControl))
    requires
        sim(*old(kb), *old(p), *old(s), *old(e)),
    ensures
        sim(*final(kb), *final(p), *final(s), *final(e)),
        r.0 == h && r.1 == h,
        final(kb).ps2() == old(kb).ps2(),
        final(kb).sc() == old(kb).sc(),
{
    kb.set_ctrl_handling(h);
    e.set_ctrl_handling(h);
    (kb.get_ctrl_handling(), e.get_ctrl_handling())
}

//@ LEMMA C18/sim_initial
pub fn c18_new<L: KeyboardLayout + Copy, S: ScancodeSet>(s1: S, s2: S, l: L, h: HandleControl) -> (r: (Keyboard<L, S>, Ps2Decoder, S, EventDecoder<L>))
    requires
        s1.wf(),
        s2.wf(),
        s1.ctx() == s2.ctx(),
    ensures
        sim(r.0, r.1, r.2, r.3),
{
    (Keyboard::new(s1, l, h), Ps2Decoder::new(), s2, EventDecoder::new(l, h))
}

} // mod verif_c18
